#!/usr/bin/env python3
"""developer helper: re-prove units under several Z3 seeds"""
import sys, concurrent.futures as cf
sys.path.insert(0,'/verif')
from vx.verus_run import run_unit
units=sys.argv[1].split(',')
seeds=[None]+list(range(1,int(sys.argv[2])+1))
def one(a):
    u,s=a
    r=run_unit(u,f'/verif/contracts/{u}.vrs',f'/verif/out/seedtest/{u}-{s}',rlimit=60,seed=s)
    return u,s,r.status,r.reason[:150],[(f['fn'],f['kind']) for f in r.failed][:3]
with cf.ThreadPoolExecutor(max_workers=6) as ex:
    for u,s,st,why,f in ex.map(one,[(u,s) for u in units for s in seeds]):
        if st!='ok': print('UNSTABLE',u,s,st,why,f)
print('sweep done')
