#!/usr/bin/env python3
"""developer helper: run selected Kani harnesses of a unit: ku.py runtime C05 h1 h2 ..."""
import sys, json
sys.path.insert(0,'/verif')
from vx import kani_run as K, props as P
unit, prop = sys.argv[1], sys.argv[2]
names = sys.argv[3:]
ku = [k for k in P.PROPS[prop]['kani_units'] if k['unit']==unit][0]
hs = [h for h in ku['harnesses'] if not names or h['name'] in names]
rs = K.run_kani(unit, hs, '/verif', '/verif/out', '/repo', dict(ku['subst_quick']), '', instance='dev-'+unit, timeout=3000)
for r in rs:
    print(r['harness'], r['status'], r.get('reason','')[:600], 'checks', r.get('checks'), 'solver_s', r.get('solver_s'))
    if r['status']!='ok': print(str(r.get('failed', r.get('raw','')))[:1500])
