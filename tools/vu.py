#!/usr/bin/env python3
"""developer helper: build + verify one unit, print a digest"""
import sys
sys.path.insert(0,'/verif')
from vx.verus_run import run_unit
u=sys.argv[1]
rl=int(sys.argv[2]) if len(sys.argv)>2 else 30
r=run_unit(u,f'/verif/contracts/{u}.vrs','/verif/out',rlimit=rl)
print(r.status, r.reason, 'verified',r.verified,'errors', r.errors, 'wall %.1f'%r.wall_s)
for f in r.failed[:40]: print('  FAIL', f['fn'], '|', f['kind'], '|', f['clause'][:110], '| line', f['line'])
if r.status=='undecided' and r.stderr: print(r.stderr[:int(sys.argv[3]) if len(sys.argv)>3 else 2500])
slow=sorted(r.fn_times,key=lambda x:-x[1])[:5]
print('slowest', slow)
