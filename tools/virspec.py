#!/usr/bin/env python3
"""Developer aid (not used by any check): print the requires/ensures of vstd/std functions as
recorded in a Verus `--log vir` dump, in a compact pseudo-Rust form.

usage: virspec.py crate.vir <name-substring> [...]
"""
import sys
import re


def parse(s):
    i, n = 0, len(s)
    stack = [[]]
    while i < n:
        c = s[i]
        if c.isspace():
            i += 1
        elif c == "(":
            stack.append([])
            i += 1
        elif c == ")":
            l = stack.pop()
            stack[-1].append(l)
            i += 1
        elif c == '"':
            j = i + 1
            while s[j] != '"':
                j += 2 if s[j] == "\\" else 1
            stack[-1].append(s[i:j + 1])
            i = j + 1
        else:
            j = i
            while j < n and not s[j].isspace() and s[j] not in "()":
                j += 1
            stack[-1].append(s[i:j])
            i = j
    return stack[0]


def kw(l, key):
    for i, x in enumerate(l):
        if x == key and i + 1 < len(l):
            return l[i + 1]
    return None


def path_of(l):
    if isinstance(l, list):
        if l and l[0] == "Fun":
            return kw(l, ":path")
        for x in l:
            p = path_of(x)
            if p:
                return p
    return None


def short(p):
    return re.sub(r"^(vstd|core|alloc|std)::(\w+::)*", "", p) if p else "?"


def r(e):
    if isinstance(e, str):
        return e
    if not e:
        return "()"
    h = e[0]
    if h in ("@@", "@"):
        return r(e[2])
    if h == ">":
        k = e[1]
        if k == "Call":
            tgt = kw(e, ":target")
            args = kw(e, ":args") or []
            name = None
            if isinstance(tgt, list) and len(tgt) > 1 and tgt[1] == "BuiltinSpecFun":
                name = tgt[2][1] if isinstance(tgt[2], list) else str(tgt[2])
            else:
                name = short(path_of(tgt))
            return f"{name}({', '.join(r(a) for a in args)})"
        if k == "ReadPlace":
            return r(e[2])
        if k == "Const":
            c = e[2]
            return " ".join(str(x) for x in c[1:]) if isinstance(c, list) else str(c)
        if k == "Quant":
            q = e[2][0] if isinstance(e[2], list) else e[2]
            binders = [b[1] for b in e[3] if isinstance(b, list) and len(b) > 1]
            return f"{q.lower()}|{', '.join(binders)}| {r(e[4])}"
        if k == "Unary":
            op = e[2]
            if isinstance(op, list) and len(op) > 1 and op[1] == "Trigger":
                return r(e[3])
            opn = op[1] if isinstance(op, list) and len(op) > 1 else str(op)
            return f"{opn}({r(e[3])})"
        if k == "UnaryOpr":
            return f"{r_op(e[2])}({r(e[3])})"
        if k in ("Binary", "BinaryOpr", "Logical"):
            return f"({r(e[3])} {r_op(e[2])} {r(e[4])})"
        if k == "Multi":
            ops = e[2]
            return "chain[" + ", ".join(r(a) for a in e[3]) + "]"
        if k == "Ctor":
            fields = e[4] if len(e) > 4 else []
            fs = []
            for f in fields:
                if isinstance(f, list) and f and f[0] == "->":
                    fs.append(r(f[2]))
            return f"{r_dt(e[2])}::{e[3]}({', '.join(fs)})"
        if k == "If":
            return f"if {r(e[2])} {{ {r(e[3])} }} else {{ {r(e[4]) if len(e) > 4 else ''} }}"
        if k in ("Var", "VarLoc", "VarAt"):
            return r(e[2])
        if k == "Block":
            return "{ " + "; ".join(r(x) for x in e[2:]) + " }"
        return f"<{k} " + " ".join(r(x) for x in e[2:]) + ">"
    if h == "Place":
        if e[1] == "Local":
            return r(e[2])
        if e[1] == "Field":
            return f"{r(e[3]) if len(e) > 3 else ''}.{r_fieldopr(e[2])}"
        return "<place " + " ".join(r(x) for x in e[1:]) + ">"
    if h == "VarIdent":
        return e[1].strip('"')
    if h in ("Typ",):
        return ""
    return "[" + " ".join(r(x) for x in e) + "]"


def r_fieldopr(e):
    return kw(e, ":field") or str(e)


def r_dt(e):
    if isinstance(e, list):
        return short(e[-1]) if isinstance(e[-1], str) else str(e)
    return str(e)


def r_op(e):
    if isinstance(e, list):
        return "".join(r_op(x) for x in e[1:]) if len(e) > 1 else str(e[0])
    return str(e)


def main():
    text = open(sys.argv[1]).read()
    forms = parse(text)
    for f in forms:
        if not (isinstance(f, list) and len(f) >= 3 and f[0] == "@"):
            continue
        body = f[2]
        if not (isinstance(body, list) and body and body[0] == "Function"):
            continue
        name = path_of(kw(body, ":name"))
        if not any(p in name for p in sys.argv[2:]):
            continue
        print("=" * 100)
        print("fn", name, " mode", kw(body, ":mode"), " opaque" if "Opaque" in str(kw(body, ":opaqueness")) else "")
        ps = kw(body, ":params") or []
        print("  params:", ", ".join(r(kw(p[2], ":name")) for p in ps if isinstance(p, list) and len(p) > 2))
        rt = kw(body, ":ret")
        if rt:
            print("  ret:", r(kw(rt[2], ":name")))
        for x in kw(body, ":require") or []:
            print("  requires", r(x))
        ens = kw(body, ":ensure") or []
        for grp in ens:
            if isinstance(grp, list):
                for x in grp:
                    print("  ensures ", r(x))
        b = kw(body, ":body")
        if b and b != "None":
            print("  body:", r(b)[:3000])


if __name__ == "__main__":
    sys.setrecursionlimit(100000)
    main()
