#!/bin/bash
# developer helper: store a delivered seed under /verif/seeded/<name> (patch, demo, the agent's notes) and run the
# registered quick check of its property with the patch applied to /repo (reverted afterwards). usage: seedstore.sh <name>
name=$1; out=/tmp/seed_out/$name; dst=/verif/seeded/$name
mkdir -p $dst; cp $out/patch.diff $dst/; rm -rf $dst/demo; cp -r $out/demo $dst/demo; cp $out/notes.md $dst/agent_notes.md 2>/dev/null
[ -f $out/confirm.log ] && cp $out/confirm.log $dst/
python3 /verif/tools/seedrun.py $dst
