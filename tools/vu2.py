#!/usr/bin/env python3
"""developer helper: like vu.py, but against a clean snapshot of /repo (/tmp/seed/clean) and a separate output directory, so
that it can be used while tools/seedrun.py has a seed applied to /repo.  usage: vu2.py <unit> [rlimit] [errchars]"""
import sys
sys.path.insert(0,'/verif')
from vx.verus_run import run_unit
u=sys.argv[1]
rl=int(sys.argv[2]) if len(sys.argv)>2 else 30
r=run_unit(u,f'/verif/contracts/{u}.vrs','/verif/out/dev',rlimit=rl,repo='/tmp/seed/clean')
print(r.status, r.reason, 'verified',r.verified,'errors', r.errors, 'wall %.1f'%r.wall_s)
for f in r.failed[:40]: print('  FAIL', f['fn'], '|', f['kind'], '|', f['clause'][:110], '| line', f['line'])
if r.status=='undecided' and r.stderr: print(r.stderr[:int(sys.argv[3]) if len(sys.argv)>3 else 2500])
