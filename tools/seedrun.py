#!/usr/bin/env python3
"""developer helper: run the registered quick check of each stored seed's property with the seed applied to /repo
(applied and reverted one at a time); prints one line per seed.  Usage: seedrun.py [dir ...]"""
import json, os, subprocess, sys, glob
dirs = sys.argv[1:] or sorted(glob.glob('/verif/seeded/C*/'))
# the checks rewrite /verif/evidence on every run: keep the records of the UNCHANGED tree and put them back at the end
import shutil, tempfile, atexit
_keep = tempfile.mkdtemp(prefix='evidence-keep-')
shutil.copytree('/verif/evidence', _keep + '/evidence')
def _restore():
    shutil.rmtree('/verif/evidence', ignore_errors=True)
    shutil.copytree(_keep + '/evidence', '/verif/evidence')
    shutil.rmtree(_keep, ignore_errors=True)
atexit.register(_restore)
for d in dirs:
    d = d.rstrip('/')
    name = os.path.basename(d)
    prop = name[:3]
    patch = os.path.join(d, 'patch.diff')
    # a seed written before a later fix: commit of /repo touches the same lines has its adapted form next to it
    if os.path.exists(os.path.join(d, 'patch_on_fixed_tree.diff')):
        patch = os.path.join(d, 'patch_on_fixed_tree.diff')
    if subprocess.run(['git', '-C', '/repo', 'apply', patch]).returncode != 0:
        print(name, 'PATCH-DOES-NOT-APPLY'); continue
    try:
        p = subprocess.run(['./check', prop, '--tier', 'quick'], cwd='/verif', capture_output=True, text=True)
        lines = [l for l in p.stdout.split('\n') if l.startswith(('VIOLATION', 'UNDECIDED', 'OK'))]
        obs = []
        for l in lines:
            if l.startswith('VIOLATION'):
                f = l.split('replay=')[1].split()[0]
                try:
                    pl = json.load(open(f)); obs.append((pl.get('obligation') or '')[:110] + (' [no input]' if 'no-failing-input-found' in l else ''))
                except Exception: pass
        print(name, 'exit', p.returncode, '|', (lines[0][:60] if lines else ''), '|', ' ;; '.join(obs[:2]))
    finally:
        subprocess.run(['git', '-C', '/repo', 'checkout', '--', '.'])
    sys.stdout.flush()
