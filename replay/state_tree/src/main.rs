//! Replay harness for the `state-tree` contracts (properties C08 / C05-layout).
//!
//! It NEVER decides a property.  It (1) re-runs recorded concrete inputs (known findings,
//! replay files) against the real crate and (2) when a Verus obligation has already failed
//! (or its proof annotations were lost), searches small layout pairs for a concrete input that
//! violates an *executable copy of that postcondition*, so that the violation can be shown on
//! the real code.
use state_tree::patch::CopyFromPatch;
use state_tree::tree::StateTreeSkeleton as S;
use state_tree::{apply_state_storage_patch_plan, build_state_storage_patch_plan};

type T = S<u64>;

fn show(t: &T) -> String {
    match t {
        S::Delay { len } => format!("Delay{len}"),
        S::Mem(n) => format!("Mem{n}"),
        S::Feed(n) => format!("Feed{n}"),
        S::FnCall(c) => format!("[{}]", c.iter().map(|x| show(x)).collect::<Vec<_>>().join(",")),
    }
}

/// parse the `show` syntax back
fn parse(s: &str) -> T {
    fn go(b: &[u8], i: &mut usize) -> T {
        if b[*i] == b'[' {
            *i += 1;
            let mut c = vec![];
            while b[*i] != b']' {
                c.push(Box::new(go(b, i)));
                if b[*i] == b',' {
                    *i += 1;
                }
            }
            *i += 1;
            S::FnCall(c)
        } else {
            let st = *i;
            while *i < b.len() && b[*i].is_ascii_alphabetic() {
                *i += 1;
            }
            let kind = std::str::from_utf8(&b[st..*i]).unwrap().to_string();
            let ns = *i;
            while *i < b.len() && b[*i].is_ascii_digit() {
                *i += 1;
            }
            let n: u64 = std::str::from_utf8(&b[ns..*i]).unwrap().parse().unwrap();
            match kind.as_str() {
                "Delay" => S::Delay { len: n },
                "Mem" => S::Mem(n),
                "Feed" => S::Feed(n),
                k => panic!("bad kind {k}"),
            }
        }
    }
    let mut i = 0;
    go(s.as_bytes(), &mut i)
}

fn size(t: &T) -> usize {
    match t {
        S::Delay { len } => 2 + *len as usize,
        S::Mem(n) | S::Feed(n) => *n as usize,
        S::FnCall(c) => c.iter().map(|x| size(x)).sum(),
    }
}
fn shape_eq(a: &T, b: &T) -> bool {
    match (a, b) {
        (S::Delay { len: x }, S::Delay { len: y }) => x == y,
        (S::Mem(x), S::Mem(y)) | (S::Feed(x), S::Feed(y)) => x == y,
        (S::FnCall(x), S::FnCall(y)) => x.len() == y.len() && x.iter().zip(y.iter()).all(|(p, q)| shape_eq(p, q)),
        _ => false,
    }
}
/// all (offset, node) pairs of a layout
fn nodes<'a>(t: &'a T, off: usize, out: &mut Vec<(usize, &'a T)>) {
    out.push((off, t));
    if let S::FnCall(c) = t {
        let mut o = off;
        for x in c {
            nodes(x, o, out);
            o += size(x);
        }
    }
}

/// executable copy of the well-formedness postconditions (a)-(f) of the C08 contracts.
/// Returns the name of the first violated clause.
fn wf_violation(old: &T, new: &T) -> Option<String> {
    let plan = build_state_storage_patch_plan(old.clone(), new.clone());
    let same = shape_eq(old, new);
    let Some(plan) = plan else {
        return if same { None } else { Some("build_state_storage_patch_plan::ensures[f: None only for identical layouts]".into()) };
    };
    if same {
        return Some("build_state_storage_patch_plan::ensures[f: identical layouts produce a no-op]".into());
    }
    if plan.total_size != size(new) {
        return Some("plan_wf[total_size == size(new)]".into());
    }
    let (mut on, mut nn) = (vec![], vec![]);
    nodes(old, 0, &mut on);
    nodes(new, 0, &mut nn);
    for p in &plan.patches {
        if p.src_addr + p.size > size(old) || p.dst_addr + p.size > size(new) {
            return Some(format!("plan_wf[b: within] patch {p:?}"));
        }
        let ok = on.iter().any(|(o, a)| {
            *o == p.src_addr && size(a) == p.size && nn.iter().any(|(d, b)| *d == p.dst_addr && shape_eq(a, b))
        });
        if !ok {
            return Some(format!("plan_wf[a: shape_witness] patch {p:?}"));
        }
    }
    for (i, p) in plan.patches.iter().enumerate() {
        for q in plan.patches.iter().skip(i + 1) {
            let od = |p: &CopyFromPatch, q: &CopyFromPatch| {
                p.src_addr + p.size <= q.src_addr && p.dst_addr + p.size <= q.dst_addr
            };
            if !(od(p, q) || od(q, p)) {
                return Some(format!("plan_wf[c/d: ordered_disjoint] patches {p:?} {q:?}"));
            }
        }
    }
    // (e) zero elsewhere, old word where covered
    let old_words: Vec<u64> = (0..size(old) as u64).map(|w| 100 + w).collect();
    let res = apply_state_storage_patch_plan(&old_words, &plan);
    if res.len() != plan.total_size {
        return Some("apply_state_storage_patch_plan::ensures[len]".into());
    }
    for (w, v) in res.iter().enumerate() {
        let cover: Vec<_> = plan.patches.iter().filter(|p| p.dst_addr <= w && w < p.dst_addr + p.size).collect();
        match cover.as_slice() {
            [] => {
                if *v != 0 {
                    return Some(format!("apply_state_storage_patch_plan::ensures[e: uncovered word {w} is zero]"));
                }
            }
            [p] => {
                if *v != old_words[p.src_addr + (w - p.dst_addr)] {
                    return Some(format!("apply_state_storage_patch_plan::ensures[covered word {w}]"));
                }
            }
            _ => return Some(format!("plan_wf[c: destination word {w} written twice]")),
        }
    }
    None
}

/// completeness clause of C08 on an UNAMBIGUOUS family: all children of both lists are leaves of pairwise distinct
/// shape and the common ones occur in the same order, so every common child survives and must be carried over
fn survivors_violation(old: &T, new: &T) -> Option<String> {
    let (S::FnCall(oc), S::FnCall(nc)) = (old, new) else { return None };
    let ow: Vec<u64> = (0..size(old)).map(|i| 1000 + i as u64).collect();
    let got = match build_state_storage_patch_plan(old.clone(), new.clone()) {
        Some(plan) => apply_state_storage_patch_plan(&ow, &plan),
        None => ow.clone(),
    };
    let mut noff = 0usize;
    for n in nc.iter() {
        let mut ooff = 0usize;
        for o in oc.iter() {
            if shape_eq(o, n) {
                let sz = size(n);
                if got.get(noff..noff + sz) != Some(&ow[ooff..ooff + sz]) {
                    return Some(format!("build_patches_recursive::ensures[completeness: surviving child {} (old words {}..{}) is not carried to new words {}..{}]", show(n), ooff, ooff + sz, noff, noff + sz));
                }
            }
            ooff += size(o);
        }
        noff += size(n);
    }
    None
}
/// the same clause one level DOWN: old = F[F[a..]], new = F[F[b..]] with a, b leaf lists of pairwise distinct shape, common ones
/// in the same order -- the edit is inside a nested call node.  The single wrapping child starts at word 0, so the word
/// offsets of the inner children are those of the inner lists.  Pool with LARGE cells (seed C08n: a removal that is large
/// relative to what survives)
fn nested_survivors_violation(a: &[T], b: &[T]) -> Option<String> {
    let old = fc(vec![fc(a.to_vec())]);
    let new = fc(vec![fc(b.to_vec())]);
    let ow: Vec<u64> = (0..size(&old)).map(|i| 1000 + i as u64).collect();
    let got = match build_state_storage_patch_plan(old.clone(), new.clone()) {
        Some(plan) => apply_state_storage_patch_plan(&ow, &plan),
        None => ow.clone(),
    };
    let mut noff = 0usize;
    for n in b.iter() {
        let mut ooff = 0usize;
        for o in a.iter() {
            if shape_eq(o, n) {
                let sz = size(n);
                if got.get(noff..noff + sz) != Some(&ow[ooff..ooff + sz]) {
                    return Some(format!("build_patches_recursive::ensures[completeness: surviving child {} of the nested call (old words {}..{}) is not carried to new words {}..{}]", show(n), ooff, ooff + sz, noff, noff + sz));
                }
            }
            ooff += size(o);
        }
        noff += size(n);
    }
    None
}
fn fc(v: Vec<T>) -> T { S::FnCall(v.into_iter().map(Box::new).collect()) }
/// completeness clause with IDENTICALLY shaped siblings ("up to exchange among identically shaped siblings"): `sub` is a
/// subsequence of `sup` (children only removed, or only added).  Every child of the shorter list survives, so its words
/// must be carried from / to a child of the same shape of the longer list, distinct children to distinct children, in order.
fn dup_survivors_violation(old: &[T], new: &[T]) -> Option<String> {
    let o = fc(old.to_vec());
    let n = fc(new.to_vec());
    let ow: Vec<u64> = (0..size(&o)).map(|i| 1000 + i as u64).collect();
    let got = match build_state_storage_patch_plan(o.clone(), n.clone()) {
        Some(plan) => apply_state_storage_patch_plan(&ow, &plan),
        None => ow.clone(),
    };
    // word ranges of the children
    let ranges = |l: &[T]| { let mut off = 0usize; l.iter().map(|c| { let r = (off, off + size(c)); off = r.1; r }).collect::<Vec<_>>() };
    let (orr, nrr) = (ranges(old), ranges(new));
    // every new child must hold the words of a same-shaped old child, or zeros; the carried ones in increasing order of source
    let mut src_of: Vec<Option<usize>> = vec![];
    for (j, c) in new.iter().enumerate() {
        let w = &got[nrr[j].0..nrr[j].1];
        let hit = (0..old.len()).find(|&i| shape_eq(&old[i], c) && w == &ow[orr[i].0..orr[i].1]);
        src_of.push(hit);
    }
    let carried: Vec<usize> = src_of.iter().flatten().copied().collect();
    if !carried.windows(2).all(|w| w[0] < w[1]) {
        return Some(format!("plan_wf[sibling order / one source per destination]: sources {carried:?}"));
    }
    // the shorter list is a subsequence of the longer one: all of ITS children survive
    let need = old.len().min(new.len());
    if carried.len() < need {
        return Some(format!("build_patches_recursive::ensures[completeness up to exchange among identically shaped siblings: {} of {} surviving children carried; new words {:?}]", carried.len(), need, got));
    }
    None
}
fn subsequences(l: &[T]) -> Vec<Vec<T>> {
    (0..(1u32 << l.len())).map(|m| l.iter().enumerate().filter(|(i, _)| m & (1 << i) != 0).map(|(_, x)| x.clone()).collect()).collect()
}
// pairwise distinct shapes, INCLUDING zero-sized ones (a unit-typed cell, an empty call): they share their address with the next child
fn distinct_lists(maxlen: usize) -> Vec<Vec<T>> { distinct_lists_from(maxlen, vec![S::Mem(1), S::Mem(2), S::Feed(1), S::Delay { len: 1 }, S::Mem(0), fc(vec![]), S::Delay { len: 2 }]) }
/// children that are function calls of SIMILAR but pairwise distinct shape (they share leaves, so their pair scores are
/// positive and larger than the score of an exact leaf pair), next to plain leaves
fn similar_pool() -> Vec<T> {
    vec![fc(vec![S::Mem(1), S::Feed(1), S::Delay { len: 1 }]), fc(vec![S::Mem(1), S::Feed(1)]), fc(vec![S::Mem(1), S::Feed(1), S::Mem(2)]),
         S::Delay { len: 2 }, S::Mem(1), fc(vec![S::Mem(1), S::Feed(1), S::Delay { len: 1 }, S::Mem(1)])]
}
fn distinct_lists_from(maxlen: usize, pool: Vec<T>) -> Vec<Vec<T>> {
    let mut out: Vec<Vec<usize>> = vec![vec![]];
    let mut frontier: Vec<Vec<usize>> = vec![vec![]];
    for _ in 0..maxlen {
        let mut next = vec![];
        for l in &frontier {
            for k in 0..pool.len() {
                if !l.contains(&k) { let mut m = l.clone(); m.push(k); next.push(m); }
            }
        }
        out.extend(next.iter().cloned());
        frontier = next;
    }
    out.into_iter().map(|l| l.into_iter().map(|k| pool[k].clone()).collect()).collect()
}
fn same_order(a: &[T], b: &[T]) -> bool {
    let ia: Vec<usize> = a.iter().enumerate().filter(|(_, x)| b.iter().any(|y| shape_eq(x, y))).map(|(i, _)| i).collect();
    let pos_in_b: Vec<usize> = ia.iter().map(|&i| b.iter().position(|y| shape_eq(&a[i], y)).unwrap()).collect();
    pos_in_b.windows(2).all(|w| w[0] < w[1])
}

fn leaves() -> Vec<T> {
    vec![S::Mem(1), S::Feed(1), S::Mem(2), S::Delay { len: 1 }, S::Mem(0)]
}
fn trees(n: usize, memo: &mut Vec<Option<Vec<T>>>) -> Vec<T> {
    if let Some(v) = &memo[n] {
        return v.clone();
    }
    let mut out = vec![];
    if n == 1 {
        out.extend(leaves());
    }
    // FnCall with children using n-1 nodes
    fn lists(rem: usize, memo: &mut Vec<Option<Vec<T>>>) -> Vec<Vec<T>> {
        if rem == 0 {
            return vec![vec![]];
        }
        let mut out = vec![];
        for first in 1..=rem {
            let heads = trees(first, memo);
            let tails = lists(rem - first, memo);
            for h in &heads {
                for t in &tails {
                    let mut v = vec![h.clone()];
                    v.extend(t.iter().cloned());
                    out.push(v);
                }
            }
        }
        out
    }
    for l in lists(n - 1, memo) {
        out.push(S::FnCall(l.into_iter().map(Box::new).collect()));
    }
    memo[n] = Some(out.clone());
    out
}

fn main() {
    let args: Vec<String> = std::env::args().collect();
    match args.get(1).map(|s| s.as_str()) {
        // re-run one recorded input: prints `FAILS <clause>` or `HOLDS`
        Some("wf") => {
            let (o, n) = (parse(&args[2]), parse(&args[3]));
            match wf_violation(&o, &n) {
                Some(c) => println!("FAILS {c}"),
                None => println!("HOLDS"),
            }
        }
        // known finding F1 (completeness clause): the surviving first child must keep its word
        Some("carry") => {
            // args: old new old_words(comma) expected_new_words(comma)
            let (o, n) = (parse(&args[2]), parse(&args[3]));
            let ow: Vec<u64> = args[4].split(',').map(|x| x.parse().unwrap()).collect();
            let ex: Vec<u64> = args[5].split(',').filter(|x| !x.is_empty()).map(|x| x.parse().unwrap()).collect();
            let got = match build_state_storage_patch_plan(o, n) {
                Some(plan) => apply_state_storage_patch_plan(&ow, &plan),
                None => ow.clone(),
            };
            if got == ex {
                println!("HOLDS got={got:?}");
            } else {
                println!("FAILS got={got:?} expected={ex:?}");
            }
        }
        Some("survivors") => {
            let (o, n) = (parse(&args[2]), parse(&args[3]));
            match survivors_violation(&o, &n) { Some(c) => println!("FAILS {c}"), None => println!("HOLDS") }
        }
        Some("survivors-search") => {
            let max: usize = args[2].parse().unwrap();
            let lists = distinct_lists(max);
            let mut tried = 0u64;
            for a in &lists {
                for b in &lists {
                    if !same_order(a, b) { continue; }
                    let o = S::FnCall(a.iter().cloned().map(Box::new).collect());
                    let n = S::FnCall(b.iter().cloned().map(Box::new).collect());
                    tried += 1;
                    if let Some(c) = survivors_violation(&o, &n) {
                        println!("FOUND old={} new={} clause={c} tried={tried}", show(&o), show(&n));
                        return;
                    }
                }
            }
            println!("NONE tried={tried} lists={}", lists.len());
        }
        // second unambiguous family: children that are function calls of similar shape (positive pair scores between
        // DIFFERENT children, larger than the score of an exact leaf pair).  old = P ++ R, new = R ++ F: a prefix is
        // removed, the rest survives in place, fresh leaves (score 0 against everything) are appended.  The back-track
        // then meets only true pairs with a positive score, and whether the fresh leaves are inserted before the
        // survivors are paired is decided by the score table alone.
        Some("survivors-search-dups") => {
            let max: usize = args[2].parse().unwrap();
            let pool = vec![S::Mem(1), S::Feed(1), S::Delay { len: 2 }, S::Mem(2)];
            let mut lists: Vec<Vec<T>> = vec![vec![]];
            let mut frontier: Vec<Vec<T>> = vec![vec![]];
            for _ in 0..max {
                let mut next = vec![];
                for l in &frontier { for x in &pool { let mut m = l.clone(); m.push(x.clone()); next.push(m); } }
                lists.extend(next.iter().cloned());
                frontier = next;
            }
            let mut tried = 0u64;
            for l in &lists {
                for sub in subsequences(l) {
                    if sub.is_empty() { continue; }
                    for (o, n) in [(l.clone(), sub.clone()), (sub.clone(), l.clone())] {
                        tried += 1;
                        if let Some(c) = dup_survivors_violation(&o, &n) {
                            println!("FOUND old={} new={} clause={c} tried={tried}", show(&fc(o)), show(&fc(n)));
                            return;
                        }
                    }
                }
            }
            println!("NONE tried={tried} lists={}", lists.len());
        }
        Some("survivors-dups") => {
            let (o, n) = (parse(&args[2]), parse(&args[3]));
            let (S::FnCall(oc), S::FnCall(nc)) = (&o, &n) else { println!("HOLDS"); return; };
            let ol: Vec<T> = oc.iter().map(|b| (**b).clone()).collect();
            let nl: Vec<T> = nc.iter().map(|b| (**b).clone()).collect();
            match dup_survivors_violation(&ol, &nl) { Some(c) => println!("FAILS {c}"), None => println!("HOLDS") }
        }
        Some("survivors-search-nested") => {
            let max: usize = args[2].parse::<usize>().unwrap().min(4);
            let pool = vec![S::Mem(1), S::Feed(1), S::Delay { len: 8 }, S::Delay { len: 40 }, S::Mem(12), S::Feed(3)];
            let lists = distinct_lists_from(max, pool);
            let mut tried = 0u64;
            for a in &lists {
                for b in &lists {
                    if a.is_empty() || b.is_empty() || !same_order(a, b) { continue; }
                    tried += 1;
                    if let Some(c) = nested_survivors_violation(a, b) {
                        println!("FOUND old={} new={} clause={c} tried={tried}", show(&fc(vec![fc(a.clone())])), show(&fc(vec![fc(b.clone())])));
                        return;
                    }
                }
            }
            println!("NONE tried={tried} lists={}", lists.len());
        }
        Some("survivors-nested") => {
            let (o, n) = (parse(&args[2]), parse(&args[3]));
            let inner = |t: &T| -> Vec<T> { match t { S::FnCall(c) if c.len() == 1 => match &*c[0] { S::FnCall(cc) => cc.iter().map(|b| (**b).clone()).collect(), _ => vec![] }, _ => vec![] } };
            match nested_survivors_violation(&inner(&o), &inner(&n)) { Some(c) => println!("FAILS {c}"), None => println!("HOLDS") }
        }
        Some("survivors-search-similar") => {
            let max: usize = args[2].parse().unwrap();
            let lists = distinct_lists_from(max, similar_pool());
            let fresh = [vec![S::Delay { len: 7 }], vec![S::Delay { len: 7 }, S::Mem(5)]];
            let mut tried = 0u64;
            for l in &lists {
                for cut in 0..=l.len() {
                    for f in &fresh {
                        let r = &l[cut..];
                        if r.is_empty() { continue; }
                        let o = fc(l.clone());
                        let n = fc(r.iter().cloned().chain(f.iter().cloned()).collect());
                        tried += 1;
                        if let Some(c) = survivors_violation(&o, &n) {
                            println!("FOUND old={} new={} clause={c} tried={tried}", show(&o), show(&n));
                            return;
                        }
                    }
                }
            }
            println!("NONE tried={tried} lists={}", lists.len());
        }
        // bounded replay search for an input violating the executable well-formedness copy
        Some("search") => {
            let max: usize = args[2].parse().unwrap();
            let mut memo = vec![None; max + 1];
            let mut all = vec![];
            for n in 1..=max {
                all.extend(trees(n, &mut memo));
            }
            let mut tried = 0u64;
            for o in &all {
                for n in &all {
                    tried += 1;
                    let r = std::panic::catch_unwind(|| wf_violation(o, n));
                    match r {
                        Ok(None) => {}
                        Ok(Some(c)) => {
                            println!("FOUND old={} new={} clause={c} tried={tried}", show(o), show(n));
                            return;
                        }
                        Err(_) => {
                            println!("FOUND old={} new={} clause=panic tried={tried}", show(o), show(n));
                            return;
                        }
                    }
                }
            }
            println!("NONE tried={tried} layouts={}", all.len());
        }
        _ => {
            eprintln!("usage: st_replay wf OLD NEW | carry OLD NEW WORDS EXPECTED | search MAXNODES");
            std::process::exit(2);
        }
    }
}
