//! Replay harness for the ffi_serde contracts (property C20).  Never decides anything: it searches
//! small Values for a concrete input that violates an executable copy of the postconditions of
//! `Value::to_ffi_value` / `FfiValue::to_value` / `serialize_value`, after a Verus obligation failed
//! or the proof annotations were lost.
use std::cell::RefCell;
use std::rc::Rc;

use mimium_lang::ast::{Expr, Literal};
use mimium_lang::interner::ToSymbol;
use mimium_lang::interpreter::{ExtFunction, Value};
use mimium_lang::runtime::ffi_serde::{deserialize_value, serialize_value};
use mimium_lang::utils::environment::Environment;

fn crossable(v: &Value) -> bool {
    match v {
        Value::Unit | Value::Number(_) | Value::String(_) | Value::Code(_) => true,
        Value::Array(a) | Value::Tuple(a) => a.iter().all(crossable),
        Value::Record(f) => f.iter().all(|(_, v)| crossable(v)),
        Value::TaggedUnion(_, b) => crossable(b),
        _ => false,
    }
}
fn val_eq(a: &Value, b: &Value) -> bool {
    match (a, b) {
        (Value::Unit, Value::Unit) => true,
        (Value::Number(x), Value::Number(y)) => x.to_bits() == y.to_bits(),
        (Value::String(x), Value::String(y)) => x == y,
        (Value::Code(x), Value::Code(y)) => x == y,
        (Value::Array(x), Value::Array(y)) | (Value::Tuple(x), Value::Tuple(y)) => {
            x.len() == y.len() && x.iter().zip(y.iter()).all(|(p, q)| val_eq(p, q))
        }
        (Value::Record(x), Value::Record(y)) => {
            x.len() == y.len() && x.iter().zip(y.iter()).all(|((k, p), (l, q))| k == l && val_eq(p, q))
        }
        (Value::TaggedUnion(t, x), Value::TaggedUnion(u, y)) => t == u && val_eq(x, y),
        _ => false,
    }
}
fn show(v: &Value) -> String {
    match v {
        Value::Unit => "Unit".into(),
        Value::Number(n) => format!("Number(bits={:#x})", n.to_bits()),
        Value::String(s) => format!("String({:?})", s.as_str()),
        Value::Code(_) => "Code".into(),
        Value::ErrorV(_) => "ErrorV".into(),
        Value::Array(a) => format!("Array[{}]", a.iter().map(show).collect::<Vec<_>>().join(",")),
        Value::Tuple(a) => format!("Tuple({})", a.iter().map(show).collect::<Vec<_>>().join(",")),
        Value::Record(f) => format!("Record{{{}}}", f.iter().map(|(k, v)| format!("{}={}", k.as_str(), show(v))).collect::<Vec<_>>().join(",")),
        Value::TaggedUnion(t, v) => format!("Tagged({t},{})", show(v)),
        Value::Closure(..) => "Closure".into(),
        Value::Fixpoint(..) => "Fixpoint".into(),
        Value::ExternalFn(_) => "ExternalFn".into(),
        Value::Store(_) => "Store".into(),
        Value::ConstructorFn(..) => "ConstructorFn".into(),
    }
}
fn leaves() -> Vec<Value> {
    let e = Expr::Literal(Literal::Int(0)).into_id_without_span();
    let ty = mimium_lang::types::Type::Primitive(mimium_lang::types::PType::Numeric).into_id();
    vec![
        Value::Unit,
        Value::Number(1.5),
        Value::Number(f64::NAN),
        Value::Number(-0.0),
        // equal as numbers, different as bit patterns (seed C20m: an encoding that compares elements with `==`)
        Value::Number(0.0),
        Value::Number(f64::NEG_INFINITY),
        Value::Number(5e-324), Value::Number(-f64::MIN_POSITIVE / 2.0), Value::Number(f64::MIN_POSITIVE), Value::Number(f64::MAX),
        Value::String("a".to_symbol()),
        Value::String("héllo→".to_symbol()),
        Value::String("".to_symbol()),
        // characters an encoding may treat specially at the edges of a string
        Value::String("tail\0".to_symbol()),
        Value::String("\0".to_symbol()),
        Value::String("two\0\0".to_symbol()),
        Value::String("a\0b".to_symbol()),
        Value::String(" lead and trail ".to_symbol()),
        Value::String("line\nbreak\n".to_symbol()),
        Value::String("\u{feff}bom".to_symbol()),
        Value::String("quote\"back\\slash".to_symbol()),
        Value::Code(e),
        // a code value whose root node carries a real source location (anything the parser produces does)
        Value::Code(Expr::Literal(Literal::Int(7)).into_id(mimium_lang::utils::metadata::Location { span: 3..9, path: std::path::PathBuf::from("demo.mmm") })),
        Value::ErrorV(e),
        Value::Closure(e, vec![], Environment::new()),
        Value::Fixpoint("f".to_symbol(), e),
        Value::ExternalFn(ExtFunction::new("x".to_symbol(), |_| Value::Unit)),
        Value::Store(Rc::new(RefCell::new(Value::Number(1.0)))),
        Value::ConstructorFn(1, "C".to_symbol(), ty),
        Value::Array(vec![]),
        Value::Tuple(vec![]),
        Value::Record(vec![]),
    ]
}
fn wrap(inner: &[Value]) -> Vec<Value> {
    let mut out = vec![];
    for a in inner {
        out.push(Value::Array(vec![a.clone()]));
        out.push(Value::TaggedUnion(3, Box::new(a.clone())));
        out.push(Value::Record(vec![("k".to_symbol(), a.clone())]));
        for b in inner.iter().take(12) {
            // records are ordered lists of (key, value): keys out of order, repeated, non-ASCII
            out.push(Value::Record(vec![("z".to_symbol(), a.clone()), ("a".to_symbol(), b.clone())]));
            out.push(Value::Record(vec![("x".to_symbol(), a.clone()), ("x".to_symbol(), b.clone())]));
            out.push(Value::Record(vec![("é".to_symbol(), b.clone()), ("".to_symbol(), a.clone()), ("b".to_symbol(), b.clone())]));
            out.push(Value::Tuple(vec![a.clone(), b.clone()]));
            out.push(Value::Array(vec![b.clone(), a.clone(), b.clone()]));
            out.push(Value::Array(vec![a.clone(), b.clone()]));
        }
    }
    out
}
/// executable copy of the contracts; returns the violated clause
fn violation(v: &Value) -> Option<String> {
    let enc = v.to_ffi_value();
    if enc.is_ok() != crossable(v) {
        return Some(format!("Value::to_ffi_value::ensures[r.is_ok() == crossable(*self)] got is_ok={}", enc.is_ok()));
    }
    if let Ok(f) = enc {
        let w = f.to_value();
        if !val_eq(v, &w) {
            return Some(format!("lemma_roundtrip[val_eq(v, to_value(to_ffi_value(v)))] decoded={}", show(&w)));
        }
    }
    match serialize_value(v) {
        Ok(bytes) => {
            if !crossable(v) {
                return Some("serialize_value::ensures[!crossable ==> is_err]".into());
            }
            match deserialize_value(&bytes) {
                Ok(w) => {
                    if !val_eq(v, &w) {
                        return Some(format!("serialize/deserialize round trip decoded={}", show(&w)));
                    }
                }
                Err(e) => return Some(format!("deserialize_value failed on serialize_value output: {e}")),
            }
        }
        Err(_) => {
            if crossable(v) {
                return Some("serialize_value refused a crossable value".into());
            }
        }
    }
    None
}
// ---- module privacy (property C17): compile small module programs with the real compiler -----------------
fn compile_errors(src: &str) -> Vec<String> {
    use mimium_lang::{Config, ExecContext};
    let mut ctx = ExecContext::new([].into_iter(), None, Config::default());
    match ctx.prepare_machine(src) {
        Ok(_) => vec![],
        Err(errs) => errs.iter().map(|e| e.get_message()).collect(),
    }
}
/// (program, must_be_rejected, description)
fn privacy_programs() -> Vec<(String, bool, String)> {
    let mut out = vec![];
    // owner module paths and use-site modules; `inside` says whether the site is within the owner's hierarchy
    let owners = [("osc", "mod osc { fn secret(x) { x * 2.0 } pub fn open(x) { secret(x) } SITE_IN }", "osc")];
    let sites: Vec<(&str, bool)> = vec![
        ("top", false),
        ("mod lfo { pub fn run(x) { BODY } }", false),
        ("mod osc2 { pub fn run(x) { BODY } }", false),
        ("mod oscillator { pub fn run(x) { BODY } }", false),
    ];
    let routes: Vec<(&str, &str, &str)> = vec![
        ("qualified path", "", "osc::secret(x)"),
        ("use", "use osc::secret\n", "secret(x)"),
        ("multi-import", "use osc::{secret, open}\n", "secret(x)"),
        ("wildcard", "use osc::*\n", "secret(x)"),
        ("re-export", "mod api { pub use osc::secret }\n", "api::secret(x)"),
    ];
    for (_oname, otext, _) in owners {
        for (site, inside) in &sites {
            for (rname, prelude, call) in &routes {
                let owner = otext.replace("SITE_IN", "");
                let (decls, dsp) = if *site == "top" {
                    (String::new(), format!("fn dsp() {{ let x = 1.0\n {call} }}"))
                } else {
                    let modname = site.split_whitespace().nth(1).unwrap();
                    (site.replace("BODY", call), format!("fn dsp() {{ {modname}::run(1.0) }}"))
                };
                // `use` statements live at top level (they affect every function of the file)
                let src = format!("{owner}\n{prelude}{decls}\n{dsp}\n");
                out.push((src, !*inside, format!("{rname} from {site}")));
            }
        }
    }
    // nested modules: a private member of a DESCENDANT module referenced from an ancestor, spelled relatively,
    // absolutely and through `use` (the ancestor is outside the member's module: must be rejected), and from a
    // grandparent; control: the same spellings of a `pub` member are accepted
    for (desc, member_vis, must_reject) in [("private", "", true), ("public", "pub ", false)] {
        for (rname, call_in_outer) in [("relative path from parent", "inner::hidden(x)"), ("absolute path from parent", "outer::inner::hidden(x)")] {
            let src = format!("mod outer {{ pub mod inner {{ {member_vis}fn hidden(x) {{ x * 3.0 }} pub fn ok(x) {{ hidden(x) }} }} pub fn run(x) {{ {call_in_outer} }} }}\nfn dsp() {{ outer::run(1.0) }}\n");
            out.push((src, must_reject, format!("{rname} ({desc} member of a child module)")));
        }
        let src = format!("mod a {{ pub mod b {{ pub mod c {{ {member_vis}fn hidden(x) {{ x * 5.0 }} }} }} pub fn run(x) {{ b::c::hidden(x) }} }}\nfn dsp() {{ a::run(1.0) }}\n");
        out.push((src, must_reject, format!("relative path from grandparent ({desc} member)")));
    }
    // a module-level `let` must not make the rest of the file count as "inside the module" (finding F12)
    out.push(("mod m {\n  fn secret(){ 42.0 }\n  let y = 1.0\n}\nlet z = m::secret()\nfn dsp(){ z }\n".to_string(), true, "qualified path from a top-level let that follows a module-level let".into()));
    out.push(("mod m {\n  fn secret(){ 42.0 }\n}\nlet z = m::secret()\nfn dsp(){ z }\n".to_string(), true, "qualified path from a top-level let (control)".into()));
    // wildcard imports written inside an inline module with a RELATIVE base: whatever they bring into scope, a private
    // member of the named module must stay out of reach from the importing module and from its other children
    out.push(("mod outer {\n    mod inner {\n        fn secret() { 42.0 }\n        pub fn open() { 1.0 }\n    }\n    use inner::*\n    pub fn g() { secret() }\n}\nfn dsp() { outer::g() }\n".to_string(), true, "wildcard import with a relative base, private member of a child module from the parent".into()));
    out.push(("mod top {\n    mod a {\n        mod deep {\n            fn hidden() { 7.0 }\n        }\n    }\n    use a::deep::*\n    mod b {\n        pub fn g() { hidden() }\n    }\n}\nfn dsp() { top::b::g() }\n".to_string(), true, "wildcard import with a relative base, private member of a cousin module".into()));
    out.push(("mod math {\n    pub fn double(x) { x * 2.0 }\n    fn hidden(x) { x * 100.0 }\n}\nuse math::*\nfn dsp() { hidden(21.0) }\n".to_string(), true, "absolute wildcard import, private member".into()));
    out.push(("mod math {\n    pub fn double(x) { x * 2.0 }\n    fn hidden(x) { x * 100.0 }\n}\nuse math::*\nfn dsp() { double(21.0) }\n".to_string(), false, "absolute wildcard import, public member (control)".into()));
    // the same path written twice under different module contexts: a legal use from inside must not make the use from outside legal
    out.push(("mod vault {\n    fn secret() { 42.0 }\n    pub fn open() { vault::secret() }\n}\nfn dsp() { vault::open() + vault::secret() }\n".to_string(), true, "private member named by its full path inside its module first, then from the root".into()));
    out.push(("mod outer {\n    fn hidden() { 7.0 }\n    mod child {\n        pub fn peek() { outer::hidden() }\n    }\n    pub fn get() { outer::child::peek() }\n}\nmod sibling {\n    pub fn steal() { outer::hidden() }\n}\nfn dsp() { outer::get() + sibling::steal() }\n".to_string(), true, "private member used by a child module first, then by a sibling module".into()));
    out.push(("mod vault {\n    fn secret() { 42.0 }\n    pub fn open() { vault::secret() + vault::secret() }\n}\nfn dsp() { vault::open() }\n".to_string(), false, "private member named twice inside its module (control)".into()));
    // control: the owner itself and a child module may use the private member
    out.push(("mod osc { fn secret(x) { x * 2.0 } pub fn open(x) { osc::secret(x) } mod detail { pub fn twice(x) { osc::secret(x) } } pub fn t(x) { osc::detail::twice(x) } }\nfn dsp() { osc::open(1.0) + osc::t(1.0) }\n".to_string(), false, "own hierarchy".into()));
    // every REFERENCE FORM of the expression syntax has to reach the resolver as a qualified path (parser/lower.rs; seed C17o:
    // the macro-call sugar `a::b::m!(..)` lowered to a pre-mangled name bypasses the privacy verdict)
    let mac = "mod t {\n    #stage(macro)\n    fn secret(x) {\n        `{ $x + $x }\n    }\n    #stage(macro)\n    pub fn open(x) {\n        `{ $x * $x }\n    }\n}\n";
    out.push((format!("{mac}fn dsp() {{\n    t::secret!(`1.0)\n}}\n"), true, "private macro through the `!` sugar with a qualified path, from the top level".to_string()));
    out.push((format!("{mac}mod u {{\n    pub fn f() {{\n        t::secret!(`1.0)\n    }}\n}}\nfn dsp() {{ u::f() }}\n"), true, "private macro through the `!` sugar from a sibling module".to_string()));
    out.push(("mod outer {\n    mod inner {\n        #stage(macro)\n        fn secret(x) {\n            `{ $x + $x }\n        }\n    }\n}\nfn dsp() {\n    outer::inner::secret!(`1.0)\n}\n".to_string(), true, "private macro two modules deep through the `!` sugar".to_string()));
    out.push(("mod outer {\n    mod inner {\n        #stage(macro)\n        fn secret(x) {\n            `{ $x + $x }\n        }\n    }\n    pub fn f() {\n        inner::secret!(`1.0)\n    }\n}\nfn dsp() {\n    outer::f()\n}\n".to_string(), true, "private macro of a child module through a relative `!` path from the parent".to_string()));
    out.push((format!("{mac}fn dsp() {{\n    t::open!(`2.0)\n}}\n"), false, "pub macro through the `!` sugar (control)".to_string()));
    out.push((format!("{mac}fn dsp() {{\n    $(t::secret(`1.0))\n}}\n"), true, "private macro through the explicit splice form".to_string()));
    out.push(("mod m {\n    fn secret(x) { x * 2.0 }\n    pub fn open(x) { x }\n}\nfn dsp() {\n    3.0 |> m::secret\n}\n".to_string(), true, "private function as the right-hand side of a pipe".to_string()));
    out.push(("mod m {\n    fn secret(x) { x * 2.0 }\n    pub fn open(x) { x }\n}\nfn apply(f, x) { f(x) }\nfn dsp() {\n    apply(m::secret, 3.0)\n}\n".to_string(), true, "private function passed as a value".to_string()));
    // type-level privacy (typing.rs; seed C17n): a private TYPE of a module referenced from outside -- by its plain name (the
    // type checker finds it through the unique `$name` suffix), by a path, through `use`; a pub type stays usable
    out.push(("mod m {\n    type alias Secret = float\n    pub fn id(x) { x }\n}\nfn dsp() {\n    let x: Secret = 3.0\n    x\n}\n".to_string(), true, "private type alias by its plain name in a let annotation at the top level".to_string()));
    out.push(("mod m {\n    type alias Secret = float\n    pub fn id(x) { x }\n}\nfn k(x: Secret) -> Secret { x }\nfn dsp() { k(3.0) }\n".to_string(), true, "private type alias by its plain name in a top-level function signature".to_string()));
    out.push(("mod outer {\n    mod inner {\n        type alias Secret = float\n        pub fn id(x) { x }\n    }\n}\nmod other {\n    fn k(x: Secret) -> Secret { x }\n    pub fn call(v) { k(v) }\n}\nfn dsp() { other::call(3.0) }\n".to_string(), true, "private type alias two modules deep by its plain name from a sibling module".to_string()));
    out.push(("mod m {\n    type Secret = A | B(float)\n    pub fn id(x) { x }\n}\nfn k(x: Secret) -> float { 1.0 }\nfn dsp() { 0.0 }\n".to_string(), true, "private sum type by its plain name in a top-level function signature".to_string()));
    out.push(("mod m {\n    type alias Secret = float\n    pub fn id(x) { x }\n}\nfn dsp() {\n    let x: m::Secret = 3.0\n    x\n}\n".to_string(), true, "private type alias by a qualified path".to_string()));
    out.push(("mod m {\n    type alias Secret = float\n    pub fn id(x) { x }\n}\nuse m::Secret\nfn dsp() {\n    let x: Secret = 3.0\n    x\n}\n".to_string(), true, "private type alias through use".to_string()));
    out.push(("mod m {\n    pub type alias Open = float\n    pub fn id(x) { x }\n}\nfn dsp() {\n    let x: Open = 3.0\n    x\n}\n".to_string(), false, "pub type alias by its plain name".to_string()));
    // a `use` that is not `pub` is a private member of the module it is written in (seed C17q): not reachable as module::name
    out.push(("mod internal {\n    pub fn helper() { 42.0 }\n}\nmod api {\n    use internal::helper\n    pub fn get() { helper() }\n}\nfn dsp() {\n    api::helper()\n}\n".to_string(), true, "non-pub `use` of a module referenced from the top level as module::name".to_string()));
    out.push(("mod outer {\n    pub mod lib {\n        pub fn one() { 1.0 }\n        pub fn two() { 2.0 }\n    }\n    pub mod inner {\n        use outer::lib::{one, two}\n        pub fn get() { one() + two() }\n    }\n}\nmod sibling {\n    pub fn steal() { outer::inner::two() }\n}\nfn dsp() { sibling::steal() }\n".to_string(), true, "non-pub multi-import of a nested module referenced from a sibling module".to_string()));
    out.push(("mod internal {\n    pub fn helper() { 42.0 }\n}\nmod api {\n    pub use internal::helper\n}\nfn dsp() {\n    api::helper()\n}\n".to_string(), false, "pub use re-export referenced as module::name (control)".to_string()));
    out
}

/// programs in which a local named like an importable function is used; every program must yield 7 (the local adds one
/// to 6; the imported / sibling function would multiply by 100)
fn shadow_programs() -> Vec<(String, f64, String)> {
    let mut out = vec![];
    let inners: [(&str, &str); 5] = [
        ("no inner scope", "let a = 6.0"),
        ("a lambda parameter re-binds the name", "let a = (|NAME| NAME * 2.0)(3.0)"),
        ("two nested lambda parameters re-bind the name", "let a = (|NAME| (|NAME| NAME * 2.0)(NAME))(3.0)"),
        ("a lambda with another parameter", "let a = (|q| q * 2.0)(3.0)"),
        ("a lambda parameter re-binds the name, used through a helper", "let a = apply(|NAME| NAME * 2.0, 3.0)"),
    ];
    let routes: [(&str, &str); 2] = [
        ("use alias", "mod fx {\n    pub fn NAME(v) { v * 100.0 }\n}\nuse fx::NAME\n"),
        ("wildcard import", "mod fx {\n    pub fn NAME(v) { v * 100.0 }\n}\nuse fx::*\n"),
    ];
    let helper = "fn apply(f, v) {\n    f(v)\n}\n";
    for name in ["gain", "level"] {
        for (rdesc, route) in routes {
            for (idesc, inner) in inners {
                // the local is a `let`
                let src = format!("{route}{helper}fn dsp() {{\n    let NAME = |v| v + 1.0\n    {inner}\n    NAME(a)\n}}\n").replace("NAME", name);
                out.push((src, 7.0, format!("let-bound local `{name}` vs {rdesc}; {idesc}")));
                // the local is a parameter
                let src = format!("{route}{helper}fn run(NAME) {{\n    {inner}\n    NAME(a)\n}}\nfn dsp() {{\n    run(|v| v + 1.0)\n}}\n").replace("NAME", name);
                out.push((src, 7.0, format!("parameter `{name}` vs {rdesc}; {idesc}")));
            }
        }
        // a sibling function of the enclosing module
        for (idesc, inner) in inners {
            if inner.contains("apply") { continue; }
            let src = format!("mod m {{\n    pub fn NAME(v) {{ v * 100.0 }}\n    pub fn run(NAME) {{\n        {inner}\n        NAME(a)\n    }}\n}}\nfn dsp() {{\n    m::run(|v| v + 1.0)\n}}\n").replace("NAME", name);
            out.push((src, 7.0, format!("parameter `{name}` vs a sibling function of the module; {idesc}")));
            let src = format!("mod m {{\n    pub fn NAME(v) {{ v * 100.0 }}\n    pub fn run() {{\n        let NAME = |v| v + 1.0\n        {inner}\n        NAME(a)\n    }}\n}}\nfn dsp() {{\n    m::run()\n}}\n").replace("NAME", name);
            out.push((src, 7.0, format!("let-bound local `{name}` vs a sibling function of the module; {idesc}")));
        }
    }
    // the same relative path written in two modules denotes two definitions
    out.push(("mod a {\n    mod inner {\n        pub fn g() { 1.0 }\n    }\n    pub fn ga() { inner::g() }\n}\nmod b {\n    mod inner {\n        pub fn g() { 2.0 }\n    }\n    pub fn gb() { inner::g() }\n}\nfn dsp() { a::ga() + b::gb() * 3.0 }\n".to_string(), 7.0, "the relative path inner::g written in module a and in module b".into()));
    // a float local (no function value involved)
    out.push(("mod fx {\n    pub fn gain(v) { v * 100.0 }\n}\nuse fx::*\nfn dsp() {\n    let gain = 6.5\n    let y = (|gain| gain * 2.0)(0.25)\n    gain + y\n}\n".to_string(), 7.0, "float local vs wildcard import; a lambda parameter re-binds the name".into()));
    out
}

// ---- scheduler (property C11): the WASM-side handle driven sample by sample --------------------------------
/// schedule `tasks` (time, id) from "sample 0 global scope", then run samples 1..=last; returns the first
/// violated clause of the per-sample contract
fn sched_violation(tasks: &[(f64, i64)], last: u64) -> Option<String> {
    use mimium_scheduler::WasmSchedulerHandle;
    let handle = WasmSchedulerHandle::default();
    let map = handle.into_wasm_plugin_fn_map();
    let schedule = map.get("_mimium_schedule_at").unwrap();
    for (t, id) in tasks {
        schedule(&[*t, *id as f64]);
    }
    let mut seen: Vec<i64> = vec![];
    for now in 1..=last {
        handle.set_current_time(now);
        let due = handle.drain_due_tasks();
        let mut expect: Vec<i64> = tasks.iter().filter(|(t, _)| (*t as u64) == now).map(|(_, id)| *id).collect();
        let mut got = due.clone();
        expect.sort();
        got.sort();
        if expect != got {
            return Some(format!("drain_due_tasks/schedule_trampoline: at sample {now} expected tasks {expect:?} (time truncated == sample) but got {got:?}"));
        }
        seen.extend(due);
    }
    None
}
fn sched_cases() -> Vec<(Vec<(f64, i64)>, u64)> {
    let mut out = vec![
        (vec![(3.0, 1), (5.0, 2)], 8),
        (vec![(2.0, 1), (2.0, 2), (2.0, 3)], 4),
        (vec![(4.0, 1), (2.0, 2), (3.0, 3), (2.0, 4)], 6),
        (vec![(2.5, 1), (2.9, 2), (3.1, 3)], 6),
        (vec![(1.0, 1)], 3),
        (vec![(6.0, 1), (1.0, 2), (6.0, 3), (1.0, 4), (3.0, 5)], 8),
    ];
    // every scheduling order of up to 5 pending tasks over 4 distinct sample times (1364 cases), and up to
    // 3 tasks over fractional times
    for n in 1..=5usize {
        let mut idx = vec![0usize; n];
        loop {
            out.push((idx.iter().enumerate().map(|(k, &t)| ((t + 1) as f64, k as i64 + 1)).collect(), 6));
            let mut k = 0;
            while k < n { idx[k] += 1; if idx[k] < 4 { break; } idx[k] = 0; k += 1; }
            if k == n { break; }
        }
    }
    let fr = [1.5, 2.0, 2.9, 3.0];
    for a in fr { for b in fr { for c in fr { out.push((vec![(a, 1), (b, 2), (c, 3)], 5)); } } }
    // far-future tasks next to near ones (seed C11o: a due test done in fewer bits): distances around 2^31, 2^32, 2^53, 2^63
    let far = [2147483647.0, 2147483648.0, 2147483653.0, 3000000000.0, 4294967296.0, 4294967301.0, 9007199254740992.0, 9223372036854775808.0, 1.0e19];
    for f in far {
        out.push((vec![(f, 1)], 6));
        out.push((vec![(2.0, 1), (f, 2), (4.0, 3)], 6));
        out.push((vec![(f, 1), (f, 2), (3.0, 3)], 6));
    }
    out
}

// ---- delay cells on the VM (property C05): run a program and compare with the reference meaning of delay -------
fn run_vm(src: &str, times: usize) -> Result<Vec<f64>, String> {
    use mimium_lang::{Config, ExecContext};
    use mimium_lang::runtime::vm::Machine;
    let mut ctx = ExecContext::new([].into_iter(), None, Config::default());
    ctx.prepare_machine(src).map_err(|e| e.iter().map(|x| x.get_message()).collect::<Vec<_>>().join("; "))?;
    let machine = ctx.get_vm_mut().ok_or("no vm")?;
    let _ = machine.execute_main();
    let mut out = vec![];
    for _ in 0..times {
        if machine.execute_entry("dsp") < 0 { return Err("dsp failed".into()); }
        out.push(Machine::get_as_array::<f64>(machine.get_top_n(1))[0]);
    }
    Ok(out)
}
/// the same program on the real WASM back end (wasmgen + wasmtime runtime), mono output
fn run_wasm(src: &str, times: usize) -> Result<Vec<f64>, String> {
    use mimium_lang::{Config, ExecContext};
    use mimium_lang::compiler::wasmgen::WasmGenerator;
    use mimium_lang::runtime::wasm::WasmRuntime;
    let mut ctx = ExecContext::new([].into_iter(), None, Config::default());
    ctx.prepare_compiler();
    let ext_fns = ctx.get_extfun_types();
    let mir = ctx.get_compiler().ok_or("no compiler")?.emit_mir(src)
        .map_err(|e| e.iter().map(|x| x.get_message()).collect::<Vec<_>>().join("; "))?;
    let mut wasmgen = WasmGenerator::new(std::sync::Arc::new(mir), &ext_fns);
    let bytes = wasmgen.generate().map_err(|e| format!("wasmgen: {e}"))?;
    let mut rt = WasmRuntime::new(&ext_fns, None).map_err(|e| format!("wasm runtime: {e}"))?;
    let mut module = rt.load_module(&bytes).map_err(|e| format!("wasm load: {e}"))?;
    let _ = module.call_function("main", &[]);
    let mut out = vec![];
    for _ in 0..times {
        let r = module.call_function("dsp", &[]).map_err(|e| format!("dsp: {e}"))?;
        out.push(r.first().map(|v| f64::from_bits(*v)).unwrap_or(f64::NAN));
    }
    Ok(out)
}
/// programs whose WASM code needs many state exchange buffers (GetState / ReturnFeed) next to statically allocated
/// temporaries: `n` one-word counters in front of a function with a tuple-valued `self` (finding F14)
fn exchange_programs() -> Vec<(String, String)> {
    let mut v = vec![];
    for n in [0usize, 31, 32, 33, 40, 70] {
        let mut s = String::new();
        for i in 0..n { s += &format!("fn c{i}(){{ self + 1.0 }}\n"); }
        let pre = s.clone();
        v.push((pre.clone() + "fn acc()->(float,float){ let u = (7.0, 8.0)\n let (a,b) = self\n let (c,d) = u\n (a + c, b + d) }\nfn dsp(){ let (p,q) = acc()\n p*1000.0 + q }\n",
                format!("{n} counters, then tuple-valued self next to a tuple temporary")));
        if n > 0 {
            v.push((pre + &format!("fn dsp(){{ let t = (10.0, 20.0)\n let y = c{}()\n let (a,b) = t\n a + b*100.0 + y*10000.0 }}\n", n - 1),
                    format!("{n} counters, the last one called while a tuple temporary is live")));
        }
    }
    // closures with their own state storage that call another closure in the middle of their body (the returning
    // closure's cursor is reset, the caller's must survive): VM against WASM
    let pre = "fn mycount(rate:float){\n  self + rate\n}\nfn hof(gen:()->(float)->float){\n  let g = gen()\n";
    let post = "}\nlet f = hof(| |mycount)\nfn dsp(){\n  self + f(1.0)\n}\n";
    for (body, desc) in [
        ("  |x| { mycount(x) + mycount(x*10.0) + g(x*100.0) + mycount(x*1000.0) }\n", "a closure with three own cells calls another closure between its second and third cell"),
        ("  |x| { g(x*100.0) + mycount(x) + mycount(x*10.0) + mycount(x*1000.0) }\n", "a closure with three own cells calls another closure first"),
        ("  |x| { mycount(x) + g(x*100.0) + mycount(x*10.0) + g(x*1000.0) + mycount(x*7.0) }\n", "a closure calls another closure twice between its own cells"),
    ] {
        v.push((format!("{pre}{body}{post}"), desc.to_string()));
    }
    // a closure whose own layout is larger than the 64 words the WASM generator declares for an unresolved callee: the
    // storage must hold the whole layout on every call
    for (len, desc) in [(70usize, "a closure with a 70-sample delay line (72 words) and a counter behind it"), (8, "a closure with an 8-sample delay line and a counter behind it (control)"), (200, "a closure with a 200-sample delay line and a counter behind it")] {
        v.push((format!("fn counter(inc){{\n  self + inc\n}}\nfn make(n){{\n  |x| {{ delay({len}.0, x, 1.0) * n + counter(1.0) }}\n}}\nlet f = make(2.0)\nfn dsp(){{\n  f(1.0)\n}}\n"), desc.to_string()));
    }
    v
}
/// every `Type` variant with empty / one-element / two-element aggregates (the hand-written serde pair of types/serde_impl.rs)
fn type_cases() -> Vec<mimium_lang::types::Type> {
    use mimium_lang::types::{PType, RecordTypeField, Type};
    let num = Type::Primitive(PType::Numeric).into_id();
    let st = Type::Primitive(PType::String).into_id();
    let tup0 = Type::Tuple(vec![]).into_id();
    let mut v = vec![
        Type::Primitive(PType::Unit), Type::Primitive(PType::Int), Type::Primitive(PType::Numeric), Type::Primitive(PType::String),
        Type::Array(num), Type::Array(tup0), Type::Ref(num), Type::Code(st), Type::Boxed(num), Type::TypeAlias("T".to_symbol()), Type::TypeAlias("".to_symbol()),
        Type::Function { arg: num, ret: st }, Type::Function { arg: st, ret: num }, Type::Function { arg: tup0, ret: tup0 },
        Type::Any, Type::Failure, Type::Unknown,
        Type::UserSum { name: "S".to_symbol(), variants: vec![] },
        Type::UserSum { name: "S".to_symbol(), variants: vec![("A".to_symbol(), None), ("B".to_symbol(), Some(num))] },
        Type::UserSum { name: "".to_symbol(), variants: vec![("B".to_symbol(), Some(st)), ("A".to_symbol(), None)] },
    ];
    for ids in [vec![], vec![num], vec![st, num], vec![num, num, st]] {
        v.push(Type::Tuple(ids.clone()));
        v.push(Type::Union(ids.clone()));
        v.push(Type::Record(ids.iter().enumerate().map(|(i, t)| RecordTypeField::new(["z", "a", "z"][i].to_symbol(), *t, i % 2 == 1)).collect()));
    }
    v
}
/// `Value` through ITS hand-written serde pair (interpreter/serde_impl.rs), compared with val_eq + the variants val_eq skips
fn value_serde_eq(a: &Value, b: &Value) -> bool {
    match (a, b) {
        (Value::ErrorV(x), Value::ErrorV(y)) => x == y,
        (Value::Fixpoint(s, x), Value::Fixpoint(t, y)) => s == t && x == y,
        (Value::ConstructorFn(i, s, x), Value::ConstructorFn(j, t, y)) => i == j && s == t && x == y,
        (Value::Array(x), Value::Array(y)) | (Value::Tuple(x), Value::Tuple(y)) => x.len() == y.len() && x.iter().zip(y.iter()).all(|(p, q)| value_serde_eq(p, q)),
        (Value::Record(x), Value::Record(y)) => x.len() == y.len() && x.iter().zip(y.iter()).all(|((k, p), (l, q))| k == l && value_serde_eq(p, q)),
        (Value::TaggedUnion(t, x), Value::TaggedUnion(u, y)) => t == u && value_serde_eq(x, y),
        _ => val_eq(a, b),
    }
}
fn type_serde_violation(only: Option<usize>) -> Option<(usize, String, String)> {
    let mut i = 0usize;
    for t in type_cases() {
        if only.is_none() || only == Some(i) {
            if let Ok(bytes) = bincode::serialize(&t) {
                match bincode::deserialize::<mimium_lang::types::Type>(&bytes) {
                    Ok(back) => if back != t { return Some((i, format!("{t:?}"), format!("type_visit_enum::ensures[decoded type equals the encoded one] decoded={back:?}"))); },
                    Err(e) => return Some((i, format!("{t:?}"), format!("an encoded type does not decode: {e}"))),
                }
            }
        }
        i += 1;
    }
    let l = leaves();
    let all: Vec<Value> = l.iter().cloned().chain(wrap(&l)).collect();
    for v in all {
        if only.is_none() || only == Some(i) {
            if let Ok(bytes) = bincode::serialize(&v) {
                match bincode::deserialize::<Value>(&bytes) {
                    Ok(back) => if !value_serde_eq(&v, &back) { return Some((i, show(&v), format!("value_visit_enum::ensures[decoded value equals the encoded one] decoded={}", show(&back)))); },
                    Err(e) => return Some((i, show(&v), format!("an encoded value does not decode: {e}"))),
                }
            }
        }
        i += 1;
    }
    None
}
/// programs in which a `let`-bound aggregate holding a boxed value is still reachable when the `let` scope ends
/// (C12: "no closure or heap object is used after it has been released"); expected outputs by call-by-value evaluation
fn let_release_programs() -> Vec<(&'static str, Vec<f64>, &'static str)> {
    let pre = "type rec L = Nil | Cons(float, L)\nfn head(l){ match l { Nil => 0.0, Cons(h, t) => h } }\n";
    let leak: fn(String) -> &'static str = |s| Box::leak(s.into_boxed_str());
    vec![
        (leak(format!("{pre}fn mk(){{\n  let s = (Cons(3.0, Nil), 2.0)\n  s\n}}\nfn dsp(){{\n  let t = mk()\n  head(t.0) + t.1\n}}\n")), vec![5.0; 4],
         "a let-bound tuple holding a boxed value is the result of its scope"),
        (leak(format!("{pre}fn dsp(){{\n  let r = (Cons(3.0, Nil), 2.0)\n  let x = {{\n     let s = r\n     s.1\n  }}\n  head(r.0) + x\n}}\n")), vec![5.0; 4],
         "a tuple holding a boxed value is copied into a second variable in an inner block and used after that block"),
        (leak(format!("{pre}fn dsp(){{\n  let r = {{a = Cons(3.0, Nil), b = 2.0}}\n  let x = {{\n     let {{b = y}} = r\n     y\n  }}\n  head(r.a) + x\n}}\n")), vec![5.0; 4],
         "a record holding a boxed value is destructured by a partial record pattern in an inner block and used after that block"),
        // finding F33: a closure stored in an ARRAY that is returned from the function that made it
        ("fn make(k){ [|x| {x*k}] }\nfn dsp(){\n  let a = make(2.0)\n  a[0](3.0)\n}\n", vec![6.0; 4],
         "an array holding a closure is returned from the function that created the closure, the element is called afterwards"),
    ]
}
// ---- drop_closure on hand-assembled bytecode (C12): a task closure that captures closures through its upvalue cells is
// closed, returned by dsp, run and dropped through the FFI handle (the path the scheduler uses); afterwards nothing may
// stay alive.  Source programs cannot show this (compiled programs leak closures per sample on the pinned tree: F13).
/// C20 stand-in for the HOST side of a dynamically loaded macro (plugin/loader.rs, DynPluginMacroInfo::get_fn): sequences of
/// expansions through the real wrapper with an in-process plugin entry point (a copy of the bridge `mimium_export_plugin!`
/// generates: decode the argument buffer, run the macro, encode the result).  The macro echoes its arguments; a marker string
/// makes it fail / answer with an empty buffer.  Every call of every sequence that is expected to succeed must return exactly
/// the arguments of THAT call (seed C20n: state kept between expansions).
mod loaderseq {
    use std::ffi::c_void;
    use mimium_lang::interner::{ToSymbol, TypeNodeId};
    use mimium_lang::interpreter::Value;
    use mimium_lang::plugin::MacroFunction;
    use mimium_lang::plugin::loader::{DynPluginMacroInfo, PluginInstance};
    use mimium_lang::runtime::ffi_serde::{deserialize_macro_args, serialize_value};
    use mimium_lang::types::{PType, Type};

    struct Echo;
    unsafe extern "C" fn bridge(instance: *mut c_void, args_ptr: *const u8, args_len: usize, out_ptr: *mut *mut u8, out_len: *mut usize) -> i32 {
        if instance.is_null() || args_ptr.is_null() || out_ptr.is_null() || out_len.is_null() { return -3; }
        unsafe {
            let args_bytes = std::slice::from_raw_parts(args_ptr, args_len);
            let args = match deserialize_macro_args(args_bytes) { Ok(a) => a, Err(_) => return -1 };
            let has = |m: &str| args.iter().any(|(v, _)| matches!(v, Value::String(s) if s.as_str() == m));
            if has("<fail>") { return -2; }
            if has("<empty>") { *out_len = 0; *out_ptr = std::ptr::null_mut(); return 0; }
            let result = Value::Tuple(args.iter().map(|(v, _)| v.clone()).collect());
            let bytes = match serialize_value(&result) { Ok(b) => b, Err(_) => return -2 };
            let boxed = bytes.into_boxed_slice();
            *out_len = boxed.len();
            *out_ptr = Box::into_raw(boxed) as *mut u8;
            0
        }
    }
    fn num() -> TypeNodeId { Type::Primitive(PType::Numeric).into_id() }
    fn string() -> TypeNodeId { Type::Primitive(PType::String).into_id() }
    /// (arguments, does the expansion succeed)
    fn arg_lists() -> Vec<(Vec<(Value, TypeNodeId)>, bool)> {
        let s = |t: &str| (Value::String(t.to_symbol()), string());
        let n = |x: f64| (Value::Number(x), num());
        vec![
            (vec![n(-0.0)], true),
            (vec![s("kick.wav"), n(1.0), n(2.0)], true),
            (vec![], true),
            (vec![s("日本.wav")], true),
            (vec![(Value::Array(vec![Value::Number(1.0), Value::Number(f64::NAN)]), num()), s("x")], true),
            (vec![s("<fail>"), n(7.0)], false),
            (vec![s("<empty>")], false),
            // a value the HOST refuses to encode
            (vec![(Value::Store(std::rc::Rc::new(std::cell::RefCell::new(Value::Number(1.0)))), num())], false),
        ]
    }
    pub fn search() -> Option<String> {
        let lists = arg_lists();
        let n = lists.len();
        let mut tried = 0usize;
        for len in 1..=3usize {
            let total = n.pow(len as u32);
            for code in 0..total {
                let seq: Vec<usize> = (0..len).map(|k| (code / n.pow(k as u32)) % n).collect();
                let plugin = Box::into_raw(Box::new(Echo));
                let ty = Type::Function { arg: string(), ret: Type::Tuple(vec![string()]).into_id() }.into_id();
                let info = unsafe { DynPluginMacroInfo::new("echo".to_symbol(), ty, plugin as *mut PluginInstance, bridge) };
                let f = info.get_fn();
                for (pos, &i) in seq.iter().enumerate() {
                    tried += 1;
                    let (args, ok) = &lists[i];
                    let got = (f.borrow())(args);
                    let want = Value::Tuple(args.iter().map(|(v, _)| v.clone()).collect());
                    let good = if *ok { super::val_eq(&got, &want) } else { matches!(got, Value::ErrorV(_)) };
                    if !good {
                        unsafe { drop(Box::from_raw(plugin)); }
                        return Some(format!("FOUND value=\"expansion {} of the sequence of argument lists {:?}\" clause=C20[every macro argument decodes to something equal to what was encoded, for every expansion of a sequence] passed {} received {} tried={tried}", pos + 1, seq, super::show(&want), super::show(&got)));
                    }
                }
                drop(f);
                unsafe { drop(Box::from_raw(plugin)); }
            }
        }
        println!("NONE tried={tried}");
        None
    }
}
/// C20 stand-in for the WHOLE way of a dynamically loaded macro's result back into the program: VM value -> Value -> FFI bytes ->
/// plugin -> FFI bytes -> Value -> VM word (DynPluginMacroInfo + the compiler's interpreter_value_to_raw), through the public
/// Plugin trait and ordinary mimium source.  The in-process plugin is a copy of the generated bridge; `ratio(n, d)` answers a
/// plain number, and for d == 0 the interpreter's error marker, which cannot cross the boundary (seed C20o).
mod macroresult {
    use std::ffi::c_void;
    use mimium_lang::ast::Expr;
    use mimium_lang::compiler::EvalStage;
    use mimium_lang::interner::{ToSymbol, TypeNodeId};
    use mimium_lang::interpreter::Value;
    use mimium_lang::plugin::loader::{DynPluginMacroInfo, PluginInstance};
    use mimium_lang::plugin::{ExtFunTypeInfo, MachineFunction, MacroFunction, Plugin};
    use mimium_lang::runtime::ffi_serde::{deserialize_macro_args, serialize_value};
    use mimium_lang::utils::metadata::Location;
    use mimium_lang::types::{PType, Type};
    use mimium_lang::{function, numeric};

    struct Ratio;
    fn ratio(args: &[(Value, TypeNodeId)]) -> Value {
        match args {
            [(Value::Number(_), _), (Value::Number(d), _)] if *d == 0.0 => Value::ErrorV(Expr::Error.into_id(Location::internal())),
            [(Value::Number(n), _), (Value::Number(d), _)] => Value::Number(n / d),
            _ => Value::ErrorV(Expr::Error.into_id(Location::internal())),
        }
    }
    unsafe extern "C" fn bridge(instance: *mut c_void, args_ptr: *const u8, args_len: usize, out_ptr: *mut *mut u8, out_len: *mut usize) -> i32 {
        if instance.is_null() || args_ptr.is_null() || out_ptr.is_null() || out_len.is_null() { return -3; }
        unsafe {
            let args_bytes = std::slice::from_raw_parts(args_ptr, args_len);
            let args = match deserialize_macro_args(args_bytes) { Ok(a) => a, Err(_) => return -1 };
            let result = ratio(&args);
            let bytes = match serialize_value(&result) { Ok(b) => b, Err(_) => return -2 };
            let boxed = bytes.into_boxed_slice();
            *out_len = boxed.len();
            *out_ptr = Box::into_raw(boxed) as *mut u8;
            0
        }
    }
    struct StandIn { instance: *mut PluginInstance, ty: TypeNodeId }
    impl StandIn {
        fn new() -> Self { Self { instance: Box::into_raw(Box::new(Ratio)) as *mut PluginInstance, ty: function!(vec![numeric!(), numeric!()], numeric!()) } }
    }
    impl Plugin for StandIn {
        fn get_macro_functions(&self) -> Vec<Box<dyn MacroFunction>> {
            vec![Box::new(unsafe { DynPluginMacroInfo::new("ratio".to_symbol(), self.ty, self.instance, bridge) })]
        }
        fn get_ext_closures(&self) -> Vec<Box<dyn MachineFunction>> { vec![] }
        fn get_type_infos(&self) -> Vec<ExtFunTypeInfo> { vec![ExtFunTypeInfo::new("ratio".to_symbol(), self.ty, EvalStage::Stage(0))] }
    }
    /// Ok(samples) | Err(how the program was refused)
    pub fn run(src: &str) -> Result<Vec<f64>, String> {
        use mimium_audiodriver::{backends::local_buffer::LocalBufferDriver, driver::{Driver, RuntimeData}};
        use mimium_lang::{Config, ExecContext};
        let src = src.to_string();
        let r = std::panic::catch_unwind(std::panic::AssertUnwindSafe(move || -> Result<Vec<f64>, String> {
            let mut driver = LocalBufferDriver::new(1);
            let audiodriverplug: Box<dyn Plugin> = Box::new(driver.get_as_plugin());
            let standin: Box<dyn Plugin> = Box::new(StandIn::new());
            let mut ctx = ExecContext::new([standin, audiodriverplug].into_iter(), None, Config::default());
            ctx.prepare_machine(&src).map_err(|e| format!("{} compile error(s)", e.len()))?;
            let _ = ctx.run_main();
            let runtimedata = { let c: &mut ExecContext = &mut ctx; RuntimeData::try_from(c).map_err(|_| "no runtime data".to_string())? };
            driver.init(runtimedata, None);
            driver.play();
            Ok(driver.get_generated_samples().to_vec())
        }));
        match r {
            Ok(x) => x,
            Err(p) => Err(p.downcast_ref::<String>().cloned().or_else(|| p.downcast_ref::<&str>().map(|s| s.to_string())).unwrap_or_else(|| "panic".to_string())),
        }
    }
    /// (program, Some(expected first sample) | None = must be refused, description)
    pub fn programs() -> Vec<(&'static str, Option<f64>, &'static str)> {
        vec![
            ("fn dsp(){ $(ratio(1.0, 4.0) |> lift_f) }", Some(0.25), "a macro result that crosses the boundary reaches the program unchanged"),
            ("fn dsp(){ $(ratio(-0.0, 1.0) |> lift_f) + 1.0 }", Some(1.0), "negative zero as a macro result"),
            ("fn dsp(){ $(ratio(1.0, 0.0) |> lift_f) }", None, "a macro result that cannot cross the boundary is spliced"),
            ("fn dsp(){ $((ratio(1.0, 0.0) + 100.0) |> lift_f) }", None, "a refused macro result is used in stage-0 arithmetic before it is lifted"),
        ]
    }
}
mod dropshared {
    use mimium_lang::mir::OpenUpValue;
    use mimium_lang::runtime::vm::{ClosureIdx, FuncProto, Instruction, Machine, Program};
    use mimium_lang::runtime::vm_ffi;
    fn upv(pos: usize) -> OpenUpValue { OpenUpValue { pos, size: 1, is_closure: true } }
    fn proto_g() -> FuncProto {
        FuncProto { nparam: 0, nret: 1, bytecodes: vec![Instruction::MoveConst(0, 0), Instruction::Return(0, 1)], constants: vec![0], ..Default::default() }
    }
    fn proto_task(heap_backed: bool, ncap: usize) -> FuncProto {
        let call = |r| if heap_backed { Instruction::CallIndirect(r, 0, 1) } else { Instruction::CallCls(r, 0, 1) };
        let mut bc = vec![];
        for k in 0..ncap { bc.push(Instruction::GetUpValue(0, k as _, 1)); bc.push(call(0)); }
        bc.push(Instruction::Return0);
        FuncProto { nparam: 0, nret: 0, upindexes: (0..ncap).map(upv).collect(), bytecodes: bc, ..Default::default() }
    }
    /// `pattern[k]` = which of the created closures cell k captures (equal numbers = the same closure object)
    fn program(pattern: &[usize], heap_backed: bool) -> Program {
        let mk_g = |dst| if heap_backed { Instruction::MakeHeapClosure(dst, dst, 0) } else { Instruction::Closure(dst, dst) };
        let n = pattern.len();
        let mut bc = vec![];
        let mut first_reg: Vec<Option<u16>> = vec![None; n + 1];
        for (k, &which) in pattern.iter().enumerate() {
            let k = k as u16;
            match first_reg[which] {
                Some(r) => bc.push(Instruction::Move(k, r)),
                None => { bc.push(Instruction::MoveConst(k, 0)); bc.push(mk_g(k)); first_reg[which] = Some(k); }
            }
        }
        let t = n as u16;
        bc.extend([Instruction::MoveConst(t, 1), Instruction::Closure(t, t), Instruction::Close(t), Instruction::Return(t, 1)]);
        let dsp = FuncProto { nparam: 0, nret: 1, bytecodes: bc, constants: vec![2, 3], ..Default::default() };
        let main = FuncProto { bytecodes: vec![Instruction::Return0], ..Default::default() };
        Program { global_fn_table: vec![("main".to_string(), main), ("dsp".to_string(), dsp), ("g".to_string(), proto_g()), ("task".to_string(), proto_task(heap_backed, n))], ..Default::default() }
    }
    pub fn live_after(pattern: &[usize], heap_backed: bool, samples: usize) -> Vec<(usize, usize)> {
        let mut machine = Machine::new(program(pattern, heap_backed), std::iter::empty(), std::iter::empty());
        machine.execute_main();
        (0..samples).map(|_| {
            if machine.execute_entry("dsp") < 0 { return (usize::MAX, usize::MAX); }
            let task_raw = machine.get_top_n(1)[0];
            let _task = Machine::get_as::<ClosureIdx>(task_raw);
            let mut handle = unsafe { vm_ffi::runtime_handle_from_machine(&mut machine) };
            handle.execute_closure(task_raw);
            (machine.closures.len(), machine.heap.len())
        }).collect()
    }
    pub fn cases() -> Vec<(Vec<usize>, bool)> {
        let mut v = vec![];
        for hb in [false, true] {
            for p in [vec![0], vec![0, 1], vec![0, 0], vec![0, 1, 0], vec![0, 0, 1], vec![0, 0, 0], vec![0, 1, 1, 0]] { v.push((p, hb)); }
        }
        v
    }
}
/// a program with the scheduler plugin on the real WASM runtime (WasmDspRuntime, the code path of the CLI)
fn run_wasm_sched(src: &str, times: usize) -> Result<Vec<f64>, String> {
    use mimium_lang::{Config, ExecContext};
    use mimium_lang::compiler::wasmgen::WasmGenerator;
    use mimium_lang::runtime::{self, DspRuntime};
    use mimium_lang::runtime::wasm::engine::{WasmDspRuntime, WasmEngine};
    let mut ctx = ExecContext::new([].into_iter(), None, Config::default());
    ctx.add_system_plugin(mimium_scheduler::get_default_scheduler_plugin());
    ctx.prepare_compiler();
    let ext_fns = ctx.get_extfun_types();
    let mir = ctx.get_compiler().ok_or("no compiler")?.emit_mir(src)
        .map_err(|e| e.iter().map(|x| x.get_message()).collect::<Vec<_>>().join("; "))?;
    let mut wasmgen = WasmGenerator::new(std::sync::Arc::new(mir), &ext_fns);
    let bytes = wasmgen.generate().map_err(|e| format!("wasmgen: {e}"))?;
    let plugin_fns = ctx.freeze_wasm_plugin_fns();
    let workers = ctx.generate_wasm_audioworkers();
    let mut engine = WasmEngine::new(&ext_fns, plugin_fns).map_err(|e| format!("wasm engine: {e}"))?;
    engine.load_module(&bytes).map_err(|e| format!("wasm load: {e}"))?;
    let mut rt = WasmDspRuntime::new(engine, None, None);
    rt.set_wasm_audioworkers(workers);
    let _ = rt.run_main();
    let mut out = vec![];
    for t in 0..times {
        rt.run_dsp(runtime::Time(t as u64));
        out.push(rt.get_output(1).first().copied().unwrap_or(f64::NAN));
    }
    Ok(out)
}
/// C12 on the WASM runtime: closures are records carved out of a bump allocator in linear memory (`__alloc_ptr`); what lies
/// between its value after global initialisation and its value after a tick is the storage of the closures (and transient
/// cells) still live, so "live closures are bounded" reads: the pointer observed after tick N equals the one after tick 2N.
/// Runs through WasmDspRuntime::run_dsp with the scheduler plugin (the code path of the CLI).
fn wasm_alloc_after(src: &str, ticks: usize) -> Result<Vec<i32>, String> {
    use mimium_lang::{Config, ExecContext};
    use mimium_lang::compiler::wasmgen::WasmGenerator;
    use mimium_lang::runtime::{self, DspRuntime};
    use mimium_lang::runtime::wasm::engine::{WasmDspRuntime, WasmEngine};
    let mut ctx = ExecContext::new([].into_iter(), None, Config::default());
    ctx.add_system_plugin(mimium_scheduler::get_default_scheduler_plugin());
    ctx.prepare_compiler();
    let ext_fns = ctx.get_extfun_types();
    let mir = ctx.get_compiler().ok_or("no compiler")?.emit_mir(src)
        .map_err(|e| e.iter().map(|x| x.get_message()).collect::<Vec<_>>().join("; "))?;
    let mut wasmgen = WasmGenerator::new(std::sync::Arc::new(mir), &ext_fns);
    let bytes = wasmgen.generate().map_err(|e| format!("wasmgen: {e}"))?;
    let plugin_fns = ctx.freeze_wasm_plugin_fns();
    let workers = ctx.generate_wasm_audioworkers();
    let mut engine = WasmEngine::new(&ext_fns, plugin_fns).map_err(|e| format!("wasm engine: {e}"))?;
    engine.load_module(&bytes).map_err(|e| format!("wasm load: {e}"))?;
    let mut rt = WasmDspRuntime::new(engine, None, None);
    rt.set_wasm_audioworkers(workers);
    let _ = rt.run_main();
    let mut ptrs = vec![];
    for t in 0..ticks {
        if rt.run_dsp(runtime::Time(t as u64)) != 0 { return Err(format!("dsp failed at tick {t}")); }
        let p = rt.engine_mut().current_module_mut().ok_or("no module")?.get_alloc_ptr().map_err(|e| format!("{e}"))?;
        ptrs.push(p);
    }
    Ok(ptrs)
}
fn wasm_alloc_programs() -> Vec<(&'static str, &'static str)> {
    vec![
        ("a self-rescheduling task whose body builds and applies a closure",
         "let acc = 0.0\nfn make_tick(){\n    letrec tick = | |{\n        let step = 1.0\n        acc = (|v| { v + step })(acc)\n        tick@(now+1.0)\n    }\n    tick\n}\nlet t = make_tick()\nt@1.0\nfn dsp(){\n    acc\n}\n"),
        ("every firing wraps the next step in a fresh closure and schedules it",
         "fn makecounter(){\n    let x = 0.0\n    letrec gen = | |{\n        x = x+1.0\n       | |{gen()}@(now+1.0)\n    }\n    | |{gen() }@1.0\n    let getter = | | {x}\n    getter\n}\nlet x_getter = makecounter();\nfn dsp(){\n    x_getter()\n}\n"),
        ("a task that only reschedules itself",
         "let x = 0.0\nfn tick(){\n  x = x + 1.0\n  tick@(now+1.0)\n}\ntick@1.0\nfn dsp(){\n  x\n}\n"),
        ("dsp builds and applies a closure every sample, no scheduler activity",
         "fn dsp(){\n    let k = 2.0\n    (|v| { v * k })(3.0)\n}\n"),
    ]
}
fn branch_state_programs() -> Vec<(String, Vec<f64>, String)> {
    let mut v = branch_state_programs0();
    // a delay whose maximum is not integral, followed by another cell: the run-time length must be the published one
    v.push(("fn cnt(){ self + 1.0 }\nfn dsp(){\n  delay(2.5, 100.0, 1.0)*0.0 + cnt()\n}\n".to_string(), vec![1.0, 2.0, 3.0, 4.0, 5.0, 6.0, 7.0, 8.0], "delay with a fractional maximum in front of a counter".to_string()));
    v.push(("fn cnt(){ self + 1.0 }\nfn dsp(){\n  delay(3.75, 9.0, 2.0)*0.0 + cnt() + delay(1.5, 7.0, 1.0)*0.0\n}\n".to_string(), vec![1.0, 2.0, 3.0, 4.0, 5.0, 6.0, 7.0, 8.0], "two delays with fractional maxima around a counter".to_string()));
    // the then-branch holds more state than the else-branch (the larger cursor move must reach the epilogue)
    v.push(("fn cnt(){ self + 1.0 }\nfn gate(c){\n  if (c) { cnt() } else { 0.0 }\n}\nfn dsp(){\n  gate(1.0)\n}\n".to_string(), vec![1.0, 2.0, 3.0, 4.0], "stateful then-branch, stateless else-branch, then path".to_string()));
    v.push(("fn cnt(){ self + 1.0 }\nfn gate(c){\n  if (c) { cnt() + cnt() } else { cnt() }\n}\nfn dsp(){\n  let a = gate(0.0)\n  let b = cnt()\n  a + b*100.0\n}\n".to_string(), vec![101.0, 202.0, 303.0, 404.0], "then-branch larger than else-branch, else path, a counter behind the call".to_string()));
    // the CONDITION of an `if` owns a cell (seed C05m): both branches start behind it
    v.push(("fn counter(){ self+1.0 }\nfn other(){ self+10.0 }\nfn dsp(){\n  if (counter() > 3.0) { 0.0 } else { other() }\n}\n".to_string(), vec![10.0, 20.0, 30.0, 0.0, 0.0, 0.0], "stateful condition, stateful else-branch".to_string()));
    v.push(("fn counter(){ self+1.0 }\nfn other(){ self+10.0 }\nfn dsp(){\n  if (counter() > 3.0) { other() } else { 0.0 }\n}\n".to_string(), vec![0.0, 0.0, 0.0, 10.0, 20.0, 30.0], "stateful condition, stateful then-branch".to_string()));
    v.push(("fn counter(){ self+1.0 }\nfn other(){ self+10.0 }\nfn gate(){\n  let r = if (counter() > 2.0) { 1.0 } else { 0.0 }\n  self + r\n}\nfn dsp(){\n  let g = gate()\n  let t = other()\n  g + t*1000.0\n}\n".to_string(), vec![10000.0, 20000.0, 30001.0, 40002.0, 50003.0], "stateful condition after `self`, another cell behind the function".to_string()));
    // stateful default-argument expressions (finding F31, repaired): the getter's cell belongs to the call site that uses the default
    v.push(("fn counter(){ self+1.0 }\nfn foo(x = counter(), y = 200.0){ x+y }\nfn dsp(){\n  foo({..})\n}\n".to_string(), vec![201.0, 202.0, 203.0, 204.0], "stateful default argument, no other cell in the caller".to_string()));
    v.push(("fn counter(){ self+1.0 }\nfn other(){ self+10.0 }\nfn foo(x = counter(), y = 200.0){ x+y }\nfn dsp(){\n  let a = other()\n  let b = foo({..})\n  a*1000.0 + b\n}\n".to_string(), vec![10201.0, 20202.0, 30203.0, 40204.0], "stateful default argument behind another cell".to_string()));
    v.push(("fn counter(){ self+1.0 }\nfn foo(x = counter(), y = 200.0){ x+y }\nfn dsp(){ foo({..}) + foo({..})*1000.0 }\n".to_string(), vec![201201.0, 202202.0, 203203.0, 204204.0], "stateful default argument used at two call sites".to_string()));
    v.push(("fn counter(){ self+1.0 }\nfn foo(x = counter(), y = 200.0){ x+y }\nfn dsp(){\n  let a = foo({y = 5.0})\n  let b = mem(a)\n  a*1000.0 + b\n}\n".to_string(), vec![6000.0, 7006.0, 8007.0, 9008.0], "stateful default argument next to an explicit one, a mem cell behind the call".to_string()));
    // an explicitly generic function that calls a stateful function is specialised per argument type (seed C05n): every
    // specialised copy owns the cells of the code it runs
    v.push(("fn counter(){\n    self + 1.0\n}\nfn pass(x:a)->a{\n    let c = counter()\n    x\n}\nfn dsp(){\n    let a = pass(1.0)\n    let t = pass((2.0, 3.0))\n    a + t.0 + t.1 + counter()*10.0\n}\n".to_string(), vec![16.0, 26.0, 36.0, 46.0, 56.0], "generic function calling a counter, specialised for two argument types".to_string()));
    v.push(("fn counter(){\n    self + 1.0\n}\nfn keep(x:a)->a{\n    let m = mem(counter())\n    let d = delay(4.0, m, 2.0)\n    x\n}\nfn dsp(){\n    let a = keep(1.0)\n    let b = counter()\n    a + b*10.0\n}\n".to_string(), vec![11.0, 21.0, 31.0, 41.0], "generic function with counter, mem and delay cells in front of another counter".to_string()));
    // stateful global initialisers (finding F26): their cells live in the global storage, which execute_main has to size
    v.push(("let g = mem(1.0)\nfn dsp(){\n  g + 5.0\n}\n".to_string(), vec![5.0, 5.0, 5.0, 5.0], "mem in a global initialiser".to_string()));
    v.push(("let g = delay(64.0, 3.0, 1.0)\nfn dsp(){\n  g + 2.0\n}\n".to_string(), vec![2.0, 2.0, 2.0, 2.0], "delay with a 66-word cell in a global initialiser".to_string()));
    // `self` is an aggregate with a sum-typed member (tag + payload words), another cell behind it: the published size of the
    // feed cell must be the run-time size of the value
    v.push(("type Opt = Nothing | Just(float)\nfn hold(x)->(float,Opt){\n  let (n, prev) = self\n  let p = match prev {\n    Nothing => 0.0,\n    Just(v) => v\n  }\n  (n + p, Just(x))\n}\nfn dsp(){\n  let (a,_o) = hold(3.0)\n  let m = mem(a)\n  a + m\n}\n".to_string(), vec![0.0, 3.0, 9.0, 15.0], "tuple self with a sum-typed member in front of a mem".to_string()));
    v.push(("type Opt = Nothing | Just(float)\nfn hold(x)->{n:float, last:Opt}{\n  let s = self\n  let p = match s.last {\n    Nothing => 0.0,\n    Just(v) => v\n  }\n  {n = s.n + p, last = Just(x)}\n}\nfn dsp(){\n  let r1 = hold(3.0)\n  let r2 = hold(5.0)\n  r1.n + r2.n * 100.0\n}\n".to_string(), vec![0.0, 503.0, 1006.0, 1509.0], "two instances of a record self with a sum-typed field".to_string()));
    v
}
fn branch_state_programs0() -> Vec<(String, Vec<f64>, String)> {
    vec![
        ("fn cnt(){ self + 1.0 }\nfn sel(c){\n  if (c) { cnt() } else { cnt()*10.0 }\n}\nfn dsp(){\n  let a = sel(0.0)\n  let b = cnt()\n  a + b*1000.0\n}\n".to_string(),
         vec![1010.0, 2020.0, 3030.0, 4040.0], "counter in both branches, else path taken, another counter after the if".to_string()),
        ("fn sel(c){\n  if (c) { mem(10.0) } else { mem(20.0) }\n}\nfn dsp(){\n  let a = sel(0.0)\n  let b = mem(5.0)\n  a + b*100.0\n}\n".to_string(),
         vec![0.0, 520.0, 520.0, 520.0], "mem in both branches, else path".to_string()),
        ("fn sel(c){\n  if (c) { mem(10.0) } else { mem(20.0) }\n}\nfn dsp(){\n  let a = sel(1.0)\n  let b = mem(5.0)\n  a + b*100.0\n}\n".to_string(),
         vec![0.0, 510.0, 510.0, 510.0], "mem in both branches, then path".to_string()),
        // constructor match between two stateful calls, stateless arms (finding F9)
        ("type Shape = Circle(float) | Square(float)\nfn cnt(){ self + 1.0 }\nfn f(s){\n  let a = cnt()\n  let b = match s {\n    Circle(r) => r,\n    Square(w) => w * 2.0\n  }\n  let c = cnt()\n  a + b*100.0 + c*10000.0\n}\nfn dsp(){\n  f(Circle(3.0))\n}\n".to_string(),
         vec![10301.0, 20302.0, 30303.0, 40304.0], "constructor match between two counters".to_string()),
        // constructor match with stateful arms of different sizes, second arm taken
        ("type Shape = Circle(float) | Square(float)\nfn cnt(){ self + 1.0 }\nfn f(s){\n  let a = cnt()\n  let b = match s {\n    Circle(r) => r + cnt()*0.0,\n    Square(w) => w * 2.0 + mem(1.0)*0.0 + mem(2.0)*0.0\n  }\n  let c = cnt()\n  a + b*100.0 + c*10000.0\n}\nfn dsp(){\n  f(Square(3.0))\n}\n".to_string(),
         vec![10601.0, 20602.0, 30603.0, 40604.0], "constructor match with stateful arms, second arm".to_string()),
        // integer-literal match with stateful arms, wildcard arm taken (finding F10)
        ("fn cnt(){ self + 1.0 }\nfn f(x){\n  let a = cnt()\n  let b = match x {\n    0 => cnt()*10.0,\n    1 => mem(5.0)*0.0 + 7.0,\n    _ => cnt()*100.0\n  }\n  let c = cnt()\n  a + b + c*10000.0\n}\nfn dsp(){\n  f(2.0)\n}\n".to_string(),
         vec![10101.0, 20202.0, 30303.0, 40404.0], "integer match with stateful arms, wildcard arm".to_string()),
        // tuple match (decision tree) with stateful arms, last arm taken (finding F11)
        ("fn cnt(){ self + 1.0 }\nfn f(x, y){\n  let a = cnt()\n  let b = match (x, y) {\n    (0, 0) => cnt()*10.0,\n    (0, _) => mem(4.0)*0.0 + 5.0,\n    (_, _) => cnt()*100.0\n  }\n  let c = cnt()\n  a + b + c*10000.0\n}\nfn dsp(){\n  f(1.0, 1.0)\n}\n".to_string(),
         vec![10101.0, 20202.0, 30303.0, 40404.0], "tuple match with stateful arms, last arm".to_string()),
    ]
}
fn live_counts(src: &str, n: usize) -> Result<((usize, usize), (usize, usize)), String> {
    use mimium_lang::{Config, ExecContext};
    let mut ctx = ExecContext::new([].into_iter(), None, Config::default());
    ctx.prepare_machine(src).map_err(|e| e.iter().map(|x| x.get_message()).collect::<Vec<_>>().join("; "))?;
    let machine = ctx.get_vm_mut().ok_or("no vm")?;
    let _ = machine.execute_main();
    for _ in 0..n { if machine.execute_entry("dsp") < 0 { return Err("dsp failed".into()); } }
    let a = (machine.closures.len(), machine.heap.len());
    for _ in 0..n { if machine.execute_entry("dsp") < 0 { return Err("dsp failed".into()); } }
    Ok((a, (machine.closures.len(), machine.heap.len())))
}
fn run_vm_sched(src: &str, times: usize) -> Result<Vec<f64>, String> {
    use mimium_audiodriver::{backends::local_buffer::LocalBufferDriver, driver::{Driver, RuntimeData}};
    use mimium_lang::{Config, ExecContext, plugin::Plugin};
    let mut driver = LocalBufferDriver::new(times as _);
    let audiodriverplug: Box<dyn Plugin> = Box::new(driver.get_as_plugin());
    let mut ctx = ExecContext::new([audiodriverplug].into_iter(), None, Config::default());
    ctx.add_system_plugin(mimium_scheduler::get_default_scheduler_plugin());
    ctx.prepare_machine(src).map_err(|e| e.iter().map(|x| x.get_message()).collect::<Vec<_>>().join("; "))?;
    let _ = ctx.run_main();
    let runtimedata = { let c: &mut ExecContext = &mut ctx; RuntimeData::try_from(c).map_err(|_| "no runtime data".to_string())? };
    driver.init(runtimedata, None);
    driver.play();
    Ok(driver.get_generated_samples().to_vec())
}
/// the same, rendered block-wise: `nblocks` calls of play() with `block` samples each on ONE driver (what a real-time host
/// does); the sample clock has to continue across the calls
fn run_vm_sched_blocks(src: &str, block: usize, nblocks: usize) -> Result<Vec<f64>, String> {
    use mimium_audiodriver::{backends::local_buffer::LocalBufferDriver, driver::{Driver, RuntimeData}};
    use mimium_lang::{Config, ExecContext, plugin::Plugin};
    let mut driver = LocalBufferDriver::new(block as _);
    let audiodriverplug: Box<dyn Plugin> = Box::new(driver.get_as_plugin());
    let mut ctx = ExecContext::new([audiodriverplug].into_iter(), None, Config::default());
    ctx.add_system_plugin(mimium_scheduler::get_default_scheduler_plugin());
    ctx.prepare_machine(src).map_err(|e| e.iter().map(|x| x.get_message()).collect::<Vec<_>>().join("; "))?;
    let _ = ctx.run_main();
    let runtimedata = { let c: &mut ExecContext = &mut ctx; RuntimeData::try_from(c).map_err(|_| "no runtime data".to_string())? };
    driver.init(runtimedata, None);
    let mut out = vec![];
    for _ in 0..nblocks {
        driver.play();
        out.extend_from_slice(driver.get_generated_samples());
    }
    Ok(out)
}
fn schedvm_programs() -> Vec<(String, Vec<f64>, String)> {
    let mut v = vec![];
    let n = 8usize;
    // tasks scheduled from dsp, K samples ahead
    for k in 1..=3usize {
        let src = format!("let x = 0.0\nfn bump(){{\n  x = x + 1.0\n}}\nfn dsp(){{\n  bump@(now+{k}.0)\n  x\n}}\n");
        let expect: Vec<f64> = (0..n).map(|t| if t + 1 > k { (t + 1 - k) as f64 } else { 0.0 }).collect();
        v.push((src, expect, format!("scheduled from dsp for now+{k}")));
    }
    // a self-rescheduling chain of period P started from global scope
    for p in 1..=3usize {
        let src = format!("let x = 0.0\nfn tick(){{\n  x = x + 1.0\n  tick@(now+{p}.0)\n}}\ntick@1.0\nfn dsp(){{\n  x\n}}\n");
        let expect: Vec<f64> = (0..n).map(|t| if t >= 1 { ((t - 1) / p + 1) as f64 } else { 0.0 }).collect();
        v.push((src, expect, format!("self-rescheduling chain of period {p}")));
    }
    // three one-shots scheduled from global scope in every order of times
    for t1 in 1..=3usize { for t2 in 1..=3usize { for t3 in 1..=3usize {
        let src = format!("let x = 0.0\nfn a(){{\n  x = x + 1.0\n}}\nfn b(){{\n  x = x + 10.0\n}}\nfn c(){{\n  x = x + 100.0\n}}\na@{t1}.0\nb@{t2}.0\nc@{t3}.0\nfn dsp(){{\n  x\n}}\n");
        let expect: Vec<f64> = (0..6usize).map(|t| (if t1 <= t {1.0} else {0.0}) + (if t2 <= t {10.0} else {0.0}) + (if t3 <= t {100.0} else {0.0})).collect();
        v.push((src, expect, format!("one-shots at {t1},{t2},{t3}")));
    }}}
    // new tasks arriving while OTHER tasks are pending (more new ones than pending ones)
    v.push(("let a = 0.0\nlet b = 0.0\nlet c = 0.0\nfn ta(){\n  a = a + 1.0\n  ta@(now+1.0)\n}\nfn tb(){\n  b = b + 1.0\n  tb@(now+1.0)\n}\nfn tc(){\n  c = c + 100.0\n}\nta@1.0\ntb@1.0\ntc@4.0\nfn dsp(){\n  a + b + c\n}\n".to_string(),
            vec![0.0, 2.0, 4.0, 6.0, 108.0, 110.0, 112.0, 114.0], "a one-shot pending behind two period-1 tickers".to_string()));
    v.push(("let acc = 0.0\nfn late1(){\n  acc = acc + 1000.0\n}\nfn late2(){\n  acc = acc + 10000.0\n}\nfn small(){\n  acc = acc + 1.0\n}\nlate1@5.0\nlate2@6.0\nfn dsp(){\n  let _ = if (now == 2.0) {\n    small@3.0\n    small@3.0\n    small@3.0\n    0.0\n  } else {\n    0.0\n  }\n  acc\n}\n".to_string(),
            vec![0.0, 0.0, 0.0, 3.0, 3.0, 1003.0, 11003.0, 11003.0], "a burst of three tasks scheduled from dsp while two later tasks are pending".to_string()));
    {
        let n = 24usize;
        let expect: Vec<f64> = (0..n).map(|t| { let fast = 3.0 * t as f64; let slow = if t >= 2 { ((t - 2) / 4 + 1) as f64 } else { 0.0 }; slow * 1000.0 + fast }).collect();
        v.push(("let fast = 0.0\nlet slow = 0.0\nfn f1(){\n  fast = fast + 1.0\n  f1@(now+1.0)\n}\nfn f2(){\n  fast = fast + 1.0\n  f2@(now+1.0)\n}\nfn f3(){\n  fast = fast + 1.0\n  f3@(now+1.0)\n}\nfn s(){\n  slow = slow + 1.0\n  s@(now+4.0)\n}\ns@2.0\nf1@1.0\nf2@1.0\nf3@1.0\nfn dsp(){\n  slow * 1000.0 + fast\n}\n".to_string(),
                expect, "a period-4 chain next to three period-1 chains".to_string()));
    }
    // more than a thousand tasks pending at once (scheduled from global scope through a call tree), plus a chain / a burst
    let bulk = "fn s4(){\n s1()\n s1()\n s1()\n s1()\n}\nfn s16(){\n s4()\n s4()\n s4()\n s4()\n}\nfn s64(){\n s16()\n s16()\n s16()\n s16()\n}\nfn s256(){\n s64()\n s64()\n s64()\n s64()\n}\nfn s1024(){\n s256()\n s256()\n s256()\n s256()\n}\n";
    v.push((format!("let x = 0.0\nfn far(){{\n  x = x + 1000.0\n}}\nfn s1(){{\n  far@100000.0\n}}\n{bulk}fn tick(){{\n  x = x + 1.0\n  tick@(now+1.0)\n}}\ns1024()\ns64()\ntick@1.0\nfn dsp(){{\n  x\n}}\n"),
            (0..12).map(|i| i as f64).collect(), "a self-rescheduling chain while 1088 far-future tasks are pending".to_string()));
    v.push((format!("let x = 0.0\nfn bump(){{\n  x = x + 1.0\n}}\nfn s1(){{\n  bump@3.0\n}}\n{bulk}s1024()\ns64()\nfn dsp(){{\n  x\n}}\n"),
            (0..6).map(|t| if t >= 3 { 1088.0 } else { 0.0 }).collect(), "1088 tasks due at the same sample".to_string()));
    // a time literal that is merely CLOSE to a half-precision value: the VM must not round it (finding F25)
    for (lit, at) in [("2.999995", 2usize), ("3.000004", 3), ("1.9999", 1), ("2.0", 2), ("1.999996", 1)] {
        let src = format!("let x = 0.0\nfn a(){{\n  x = x + 1.0\n}}\na@{lit}\nfn dsp(){{\n  x\n}}\n");
        let expect: Vec<f64> = (0..6usize).map(|t| if t >= at { 1.0 } else { 0.0 }).collect();
        v.push((src, expect, format!("a one-shot scheduled for the literal time {lit}")));
    }
    // a capturing closure that stays reachable through a holder (array element, assigned global) is scheduled again
    // after all of its pending tasks have fired: the handle must still denote the closure ("never dropped")
    v.push(("let x = 0.0\nfn make(c){\n    let f = | | { x = x + c }\n    f@2.0\n    [f]\n}\nlet cbs = make(1.0)\nfn again(){\n    cbs[0]@(now+2.0)\n    0.0\n}\nfn dsp(){\n    let d = if (now == 5.0) { again() } else { 0.0 }\n    x + d\n}\n".to_string(),
            vec![0.0, 0.0, 1.0, 1.0, 1.0, 1.0, 1.0, 2.0, 2.0, 2.0, 2.0, 2.0], "a closure kept in an array is scheduled again after its first task has fired".to_string()));
    v.push(("let x = 0.0\nfn make(c){\n    let f = | | { x = x + c }\n    f@1.0\n    f@3.0\n    [f, f]\n}\nlet cbs = make(1.0)\nfn again(d){\n    cbs[1]@(now+d)\n    0.0\n}\nfn dsp(){\n    let a = if (now == 5.0) { again(2.5) } else { 0.0 }\n    let b = if (now == 8.0) { again(1.0) } else { 0.0 }\n    x + a + b\n}\n".to_string(),
            vec![0.0, 1.0, 1.0, 2.0, 2.0, 2.0, 2.0, 3.0, 3.0, 4.0, 4.0, 4.0], "a closure kept in an array fires twice and is scheduled again twice (one fractional time)".to_string()));
    v.push(("let x = 0.0\nfn mk(c){\n    | | { x = x + c }\n}\nlet holder = mk(100.0)\nfn setup(c){\n    holder = | | { x = x + c }\n    holder@2.0\n}\nlet _ = setup(1.0)\nfn again(){\n    holder@(now+3.0)\n    0.0\n}\nfn dsp(){\n    let d = if (now == 4.0) { again() } else { 0.0 }\n    x + d\n}\n".to_string(),
            vec![0.0, 0.0, 1.0, 1.0, 1.0, 1.0, 1.0, 2.0, 2.0, 2.0], "a closure assigned to a global from inside a function is scheduled again after its queue has drained".to_string()));
    v.push(("let x = 0.0\nfn step(n){\n    x = x + n\n    | | { step(n+1.0) }@(now + n)\n}\nlet _ = step(1.0)\nfn dsp(){ x }\n".to_string(),
            vec![1.0, 3.0, 3.0, 6.0, 6.0, 6.0, 10.0, 10.0], "a chain of one-shot closures, each created by the task before it".to_string()));
    // far-future tasks next to near ones (seed C11o): they must not fire within the run, the near ones fire on time
    for far in ["2147483648.0", "3000000000.0", "4294967301.0"] {
        v.push((format!("let x = 0.0\nfn near(){{\n  x = x + 1.0\n}}\nfn late(){{\n  x = x + 1000.0\n}}\nlate@{far}\nnear@3.0\nfn dsp(){{\n  x\n}}\n"),
                vec![0.0, 0.0, 0.0, 1.0, 1.0, 1.0, 1.0, 1.0], format!("a task scheduled for sample {far} next to one for sample 3")));
    }
    // boxed heap objects next to scheduled closures (seed C11n): the closure table and the heap are slot maps with the same
    // key type, so a function value's heap-wrapper handle may also be a valid key of an UNRELATED closure
    v.push(("type rec Seq = End | Step(float, Seq)\nfn total(s: Seq) -> float {\n    match s {\n        End => 0.0,\n        Step(v, rest) => v + total(rest)\n    }\n}\nlet melody = Step(6.0, End)\nfn makecounter(){\n    let x = 0.0\n    letrec gen = | |{\n        x = x+1.0\n        gen@(now+1.0)\n    }\n    let getter = | | {x}\n    gen@1.0\n    getter\n}\nlet x_getter = makecounter();\nfn dsp(){\n    x_getter() + total(melody) * 1000.0\n}\n".to_string(),
            vec![6000.0, 6001.0, 6002.0, 6003.0, 6004.0, 6005.0, 6006.0, 6007.0], "a self-rescheduling closure next to a getter closure, one boxed list cell alive".to_string()));
    v.push(("type rec Seq = End | Step(float, Seq)\nlet melody = Step(1.0, End)\nlet x = 0.0\nfn setup(unit){\n    let a = | |{ x = x + unit }\n    let b = | |{ x = x + unit * 10.0 }\n    let c = | |{ x = x + unit * 100.0 }\n    a@2.0\n    b@4.0\n    c@6.0\n}\nsetup(1.0)\nfn dsp(){\n    x\n}\n".to_string(),
            vec![0.0, 0.0, 1.0, 1.0, 11.0, 11.0, 111.0, 111.0], "three one-shot closures, one boxed list cell alive".to_string()));
    v
}
/// (program A, program B, samples before the swap, expected outputs after the swap, description)
fn layout_programs() -> Vec<(String, String, usize, Vec<f64>, String)> {
    let mut v = vec![];
    let cont = |n: usize, m: usize| -> Vec<f64> { (1..=m).map(|k| (n + k) as f64).collect() };
    // a counter (`self`) next to a delay / a mem / a stateful call that is removed by the edit
    for (extra, desc) in [("delay(4.0, 100.0, 2.0)*0.0", "self + delay"), ("mem(50.0)*0.0", "self + mem"), ("delay(2.0, 7.0, 1.0)*0.0 + mem(9.0)*0.0", "self + delay + mem")] {
        v.push((format!("fn dsp(){{ self + 1.0 + {extra} }}\n"), "fn dsp(){ self + 1.0 }\n".to_string(), 6, cont(6, 4), format!("{desc} -> self")));
    }
    // the same inside a called function
    v.push(("fn cnt(){ self + 1.0 + delay(4.0, 100.0, 2.0)*0.0 }\nfn dsp(){ cnt() }\n".to_string(), "fn cnt(){ self + 1.0 }\nfn dsp(){ cnt() }\n".to_string(), 6, cont(6, 4), "callee: self + delay -> self".to_string()));
    // a stateful call in statement position (value discarded) followed by other cells
    v.push(("fn c1(){ self + 1.0 }\nfn c2(){ self + 10.0 }\nfn dsp(){\n  c1()\n  let y = c2()\n  y + mem(7.0)*0.0\n}\n".to_string(),
            "fn c1(){ self + 1.0 }\nfn c2(){ self + 10.0 }\nfn dsp(){\n  c1()\n  let y = c2()\n  y\n}\n".to_string(), 5, (1..=3).map(|k| ((5 + k) * 10) as f64).collect(), "discarded stateful statement; call; mem -> without mem".to_string()));
    // control without `self`: two mems, the second removed
    v.push(("fn cnt(){ self + 1.0 }\nfn dsp(){ cnt() + mem(3.0)*0.0 }\n".to_string(), "fn cnt(){ self + 1.0 }\nfn dsp(){ cnt() }\n".to_string(), 5, cont(5, 3), "call + mem -> call".to_string()));
    v
}
fn run_hotswap_quiet(a: &str, b: &str, n: usize, m: usize) -> Result<Vec<f64>, String> {
    use mimium_lang::{Config, ExecContext};
    use mimium_lang::runtime::vm::Machine;
    let mut ctx = ExecContext::new([].into_iter(), None, Config::default());
    ctx.prepare_machine(a).map_err(|e| e.iter().map(|x| x.get_message()).collect::<Vec<_>>().join("; "))?;
    let prog_b = ctx.get_compiler().ok_or("no compiler")?.emit_bytecode(b)
        .map_err(|e| e.iter().map(|x| x.get_message()).collect::<Vec<_>>().join("; "))?;
    let machine = ctx.get_vm_mut().ok_or("no vm")?;
    let _ = machine.execute_main();
    let mut out = vec![];
    for _ in 0..n {
        if machine.execute_entry("dsp") < 0 { return Err("dsp failed".into()); }
        out.push(Machine::get_as_array::<f64>(machine.get_top_n(1))[0]);
    }
    let mut m2 = machine.new_resume(prog_b);
    let _ = m2.execute_main();
    for _ in 0..m {
        if m2.execute_entry("dsp") < 0 { return Err("dsp failed".into()); }
        out.push(Machine::get_as_array::<f64>(m2.get_top_n(1))[0]);
    }
    Ok(out)
}
fn run_hotswap(a: &str, b: &str, n: usize, m: usize) -> Result<Vec<f64>, String> {
    use mimium_lang::{Config, ExecContext};
    use mimium_lang::runtime::vm::Machine;
    let mut ctx = ExecContext::new([].into_iter(), None, Config::default());
    ctx.prepare_machine(a).map_err(|e| e.iter().map(|x| x.get_message()).collect::<Vec<_>>().join("; "))?;
    let prog_b = ctx.get_compiler().ok_or("no compiler")?.emit_bytecode(b)
        .map_err(|e| e.iter().map(|x| x.get_message()).collect::<Vec<_>>().join("; "))?;
    let machine = ctx.get_vm_mut().ok_or("no vm")?;
    println!("skeleton A: {:?}", machine.prog.get_dsp_state_skeleton());
    println!("skeleton B: {:?}", prog_b.get_dsp_state_skeleton());
    let _ = machine.execute_main();
    let mut out = vec![];
    for _ in 0..n {
        if machine.execute_entry("dsp") < 0 { return Err("dsp failed".into()); }
        out.push(Machine::get_as_array::<f64>(machine.get_top_n(1))[0]);
    }
    let mut m2 = machine.new_resume(prog_b);
    let _ = m2.execute_main();
    for _ in 0..m {
        if m2.execute_entry("dsp") < 0 { return Err("dsp failed".into()); }
        out.push(Machine::get_as_array::<f64>(m2.get_top_n(1))[0]);
    }
    Ok(out)
}
/// the WASM runtime's hot swap, driven the way the CLI drives it (prepare on a fresh engine: load, run main, snapshot the
/// prewarmed global state, diff the two published dsp layouts -- identical layouts become the one whole-storage patch, as in
/// FileRunner::build_required_state_patch_plan -- then WasmDspRuntime::try_hot_swap): n samples of A, swap, m samples of B
fn run_wasm_hotswap(a: &str, b: &str, n: usize, m: usize) -> Result<Vec<f64>, String> {
    use mimium_lang::{Config, ExecContext};
    use mimium_lang::compiler::wasmgen::WasmGenerator;
    use mimium_lang::runtime::{DspRuntime, ProgramPayload, Time};
    use mimium_lang::runtime::wasm::engine::{WasmDspRuntime, WasmEngine};
    let compile = |src: &str| -> Result<(Vec<u8>, _, _), String> {
        let mut ctx = ExecContext::new([].into_iter(), None, Config::default());
        ctx.prepare_compiler();
        let ext_fns = ctx.get_extfun_types();
        let mir = ctx.get_compiler().ok_or("no compiler")?.emit_mir(src)
            .map_err(|e| e.iter().map(|x| x.get_message()).collect::<Vec<_>>().join("; "))?;
        let sk = mir.get_dsp_state_skeleton().cloned().ok_or("dsp not found")?;
        let bytes = WasmGenerator::new(std::sync::Arc::new(mir), &ext_fns).generate().map_err(|e| format!("wasmgen: {e}"))?;
        Ok((bytes, sk, ext_fns))
    };
    let (abytes, ask, aext) = compile(a)?;
    let (bbytes, bsk, bext) = compile(b)?;
    let mut engine = WasmEngine::new(&aext, None).map_err(|e| format!("{e}"))?;
    engine.load_module(&abytes).map_err(|e| format!("{e}"))?;
    let mut rt = WasmDspRuntime::new(engine, None, Some(ask.clone()));
    rt.run_main().map_err(|e| format!("{e}"))?;
    let mut out = vec![];
    for t in 0..n {
        if rt.run_dsp(Time(t as u64)) != 0 { return Err("dsp failed".into()); }
        out.push(rt.get_output(1).first().copied().unwrap_or(f64::NAN));
    }
    let mut e2 = WasmEngine::new(&bext, None).map_err(|e| format!("{e}"))?;
    e2.load_module(&bbytes).map_err(|e| format!("{e}"))?;
    let mut prewarm = WasmDspRuntime::new(e2, None, None);
    prewarm.run_main().map_err(|e| format!("{e}"))?;
    let prewarmed_global_state = prewarm.engine_mut().get_global_state_data().map(|d| d.to_vec()).ok_or("no global state")?;
    let prepared_engine = Box::new(prewarm.into_engine());
    let state_patch_plan = match state_tree::build_state_storage_patch_plan(ask.clone(), bsk.clone()) {
        Some(p) => p,
        None => {
            let total_size = bsk.total_size() as usize;
            state_tree::StateStoragePatchPlan { total_size, patches: vec![state_tree::patch::CopyFromPatch { src_addr: 0, dst_addr: 0, size: total_size }] }
        }
    };
    let payload = ProgramPayload::WasmModule { bytes: bbytes.clone(), prepared_engine, dsp_state_skeleton: Some(bsk.clone()), state_patch_plan, prewarmed_global_state };
    if !rt.try_hot_swap(payload) { return Err("hot swap refused".into()); }
    for t in 0..m {
        if rt.run_dsp(Time((n + t) as u64)) != 0 { return Err("dsp failed after the swap".into()); }
        out.push(rt.get_output(1).first().copied().unwrap_or(f64::NAN));
    }
    Ok(out)
}
/// extra pairs for the WASM swap: layouts WITHOUT a common cell (seed C05o) -- the new program starts from a zeroed storage
/// of the new size on both back ends
fn disjoint_swap_programs() -> Vec<(String, String, usize, usize, String)> {
    vec![
        ("fn dsp(){ self + 1.0 }\n".to_string(), "fn dsp(){ mem(10.0) }\n".to_string(), 5, 4, "a self counter rewritten with mem (no common cell)".to_string()),
        ("fn dsp(){ mem(3.0) + mem(4.0) }\n".to_string(), "fn dsp(){ delay(4.0, 7.0, 2.0) }\n".to_string(), 4, 6, "two mem cells replaced by one delay".to_string()),
        ("fn dsp(){ delay(4.0, 7.0, 2.0) }\n".to_string(), "fn dsp(){ self + 2.0 }\n".to_string(), 4, 4, "a delay replaced by a self counter".to_string()),
    ]
}
/// two delay cells of different sizes in one function: sizes (n1, n2), delay times (t1, t2)
fn delay_pair_violation(n1: u64, t1: u64, n2: u64, t2: u64) -> Option<String> {
    let src = format!("fn c1(){{ self+1.0 }}\nfn c2(){{ self+1.0 }}\nfn dsp(){{ delay({n1}.0, c1(), {t1}.0)*1000.0 + delay({n2}.0, c2(), {t2}.0) }}\n");
    let times = 24usize;
    let got = match run_vm(&src, times) { Ok(v) => v, Err(e) => return Some(format!("program rejected: {e}")) };
    // reference: counter yields k at sample k (self starts at 0, value returned is the previous self + 1 ... measured below)
    let base = match run_vm("fn c1(){ self+1.0 }\nfn dsp(){ c1() }\n", times) { Ok(v) => v, Err(e) => return Some(e) };
    let at = |k: i64| -> f64 { if k < 0 { 0.0 } else { base[k as usize] } };
    for k in 0..times as i64 {
        let expect = at(k - t1 as i64) * 1000.0 + at(k - t2 as i64);
        if got[k as usize] != expect {
            return Some(format!("VM Delay arm: sample {k}: got {} expected {} (each delay cell must be read with ITS OWN size)", got[k as usize], expect));
        }
    }
    None
}

// ---- boxed variants on the VM (property C12, usersum walkers): heap objects must not accumulate ---------
fn boxed_programs() -> Vec<(&'static str, String)> {
    let mut v = vec![];
    let shapes = [
        ("cons(float, List)", "type rec L = Nil | Cons(float, L)", "let a = Cons(1.0, Nil)\n let b = Cons(2.0, a)\n let c = Cons(3.0, b)"),
        ("step(Seq, (float,float))", "type rec L = Nil | Cons(L, (float, float))", "let a = Cons(Nil, (1.0, 2.0))\n let b = Cons(a, (3.0, 4.0))"),
        ("step((float,float), Seq)", "type rec L = Nil | Cons((float, float), L)", "let a = Cons((1.0, 2.0), Nil)\n let b = Cons((3.0, 4.0), a)\n let c = Cons((5.0, 6.0), b)"),
        ("step((float,float,float), Seq)", "type rec L = Nil | Cons((float, float, float), L)", "let a = Cons((1.0, 2.0, 3.0), Nil)\n let b = Cons((3.0, 4.0, 5.0), a)"),
        ("node(float, (float,float), T)", "type rec L = Nil | Cons(float, (float, float), L)", "let a = Cons(0.5, (1.0, 2.0), Nil)\n let b = Cons(0.25, (3.0, 4.0), a)"),
        ("expr tree shared", "type rec L = Num(float) | Neg(L) | Add(L, L)", "let one = Num(1.0)\n let n = Neg(one)\n let e = Add(n, one)\n let f = Add(e, e)"),
    ];
    for (name, decl, body) in shapes {
        v.push((name, format!("{decl}\nfn dsp() -> float {{\n {body}\n 1.0\n}}\n")));
    }
    // a local initialised from a projection / a field access / a variable (each takes references exactly once)
    v.push(("let from a tuple projection", "type rec List = Nil | Cons(float, List)\nfn dsp() -> float {\n    let t = (Cons(1.0, Nil), 2.0);\n    let c = t.0;\n    t.1\n}\n".to_string()));
    v.push(("let from a record field", "type rec List = Nil | Cons(float, List)\nfn dsp() -> float {\n    let r = {l = Cons(1.0, Nil), v = 2.0};\n    let c = r.l;\n    r.v\n}\n".to_string()));
    v.push(("let from a variable", "type rec List = Nil | Cons(float, List)\nfn dsp() -> float {\n    let a = (Cons(1.0, Nil), 3.0);\n    let b = a;\n    b.1\n}\n".to_string()));
    // TWO recursive types whose names share a suffix, with different payload layouts, values of both alive, a chain of the
    // shorter-named one built in an inner block (seed C12p: the release cascade looks the type up in the type table)
    for (name, body) in [
        ("two recursive types, the longer-named one used first", "    let e0 = Ev(0.0, 1.0, End);\n    let e1 = Ev(1.0, 2.0, e0);\n    let v = {\n        let t = Cons(2.0, Nil);\n        let u = Cons(3.0, t);\n        Cons(4.0, u)\n    };\n    1.0"),
        ("two recursive types, the shorter-named one used first", "    let v = {\n        let t = Cons(2.0, Nil);\n        let u = Cons(3.0, t);\n        Cons(4.0, u)\n    };\n    let e0 = Ev(0.0, 1.0, End);\n    let e1 = Ev(1.0, 2.0, e0);\n    1.0"),
    ] {
        v.push((name, format!("type rec EventList = End | Ev(float, float, EventList)\ntype rec List = Nil | Cons(float, List)\nfn dsp()->float{{\n{body}\n}}\n")));
    }
    // closures that are still open when their frame returns -- through Return (value) and through Return0 (unit frame)
    v.push(("open closure in a value-returning frame", "fn scale(k){\n    (|y| { y*k })(4.0)\n}\nfn dsp() -> float {\n    scale(2.0)\n}\n".to_string()));
    v.push(("open closure applied in a unit-returning frame", "let acc = 0.0\nfn bump(k){\n    (|y| { acc = acc + y*k })(1.0)\n}\nfn dsp() -> float {\n    bump(2.0)\n    acc\n}\n".to_string()));
    v.push(("open closure piped in a unit-returning frame", "let acc = 0.0\nfn store(v){\n    acc = v\n}\nfn work(k){\n    store(3.0 |> |v| {v*k})\n}\nfn dsp() -> float {\n    work(2.0)\n    acc\n}\n".to_string()));
    // aggregates released at let-scope end whose counted members sit at different positions (the type-directed release
    // has to address the member it releases): records sort their fields by name
    let l = "type rec List = Nil | Cons(float, List)\n";
    for (name, body) in [
        ("record, counted field first", "fn dsp(){ let ev = {partials = Cons(440.0, Nil), vol = 0.5}; ev.vol }"),
        ("record, plain field before counted field", "fn dsp(){ let ev = {gain = 0.5, partials = Cons(440.0, Nil)}; ev.gain }"),
        ("record, plain field between counted fields", "fn dsp(){ let ev = {attack = Cons(1.0, Nil), level = 0.25, release = Cons(2.0, Nil)}; ev.level }"),
        ("record nested in a tuple", "fn voice(f:float){ let v = (f, {amp = 0.5, partials = Cons(f, Nil)}); v.0 }\nfn dsp(){ voice(440.0) }"),
        ("tuple, plain members before and between counted members", "fn dsp(){ let ev = (0.5, Cons(440.0, Nil), 2.0, Cons(1.0, Nil)); ev.0 }"),
    ] {
        v.push((name, format!("{l}{body}\n")));
    }
    v
}
/// programs whose live heap objects have to be a KNOWN number after every sample and that must keep running: a constructor
/// fed from a variable that outlives the derived value (seed C12m) -- the new cell shares the variable's boxes, so the argument
/// has to take references of its own, or the variable's boxes are freed under it.  Each runs in a child process (a use after
/// release panics in the VM).
fn boxed_expect_programs() -> Vec<(&'static str, String, usize)> {
    vec![
        ("constructor over a global list, derived value dies every sample", "type rec List = Nil | Cons(float, List)\nlet a = Cons(2.0, Nil)\nfn dsp() -> float {\n    let l = Cons(1.0, a)\n    1.0\n}\n".to_string(), 1),
        ("constructor over a global list that is read afterwards", "type rec List = Nil | Cons(float, List)\nlet a = Cons(2.0, Cons(3.0, Nil))\nfn second(l){\n    match l {\n        Nil => 0.0,\n        Cons(h, t) => h\n    }\n}\nfn dsp() -> float {\n    let s = { let l = Cons(1.0, a)\n              1.0 }\n    let t = { let m = Cons(4.0, a)\n              2.0 }\n    s + t\n}\n".to_string(), 2),
    ]
}
fn heap_after(src: &str, n: usize) -> Result<(usize, usize), String> {
    use mimium_lang::{Config, ExecContext};
    let mut ctx = ExecContext::new([].into_iter(), None, Config::default());
    ctx.prepare_machine(src).map_err(|e| e.iter().map(|x| x.get_message()).collect::<Vec<_>>().join("; "))?;
    let machine = ctx.get_vm_mut().ok_or("no vm")?;
    let _ = machine.execute_main();
    for _ in 0..n { if machine.execute_entry("dsp") < 0 { return Err("dsp failed".into()); } }
    let a = machine.heap.len();
    for _ in 0..n { if machine.execute_entry("dsp") < 0 { return Err("dsp failed".into()); } }
    Ok((a, machine.heap.len()))
}

// ---- syntax tree clause of C13: leaves of the real parse_cst tree vs the syntax tokens ------------------------
fn cst_violation(src: &str) -> Option<String> {
    use mimium_lang::compiler::parser::green::GreenNode;
    use mimium_lang::compiler::parser::{GreenNodeArena, GreenNodeId, TokenKind, parse_cst, preparse, tokenize};
    fn collect(arena: &GreenNodeArena, id: GreenNodeId, out: &mut Vec<usize>) {
        match arena.get(id) {
            GreenNode::Token { token_index, .. } => out.push(*token_index),
            GreenNode::Internal { children, .. } => children.iter().for_each(|&c| collect(arena, c, out)),
        }
    }
    let src = src.to_string();
    let r = std::panic::catch_unwind(move || {
        let tokens = tokenize(&src);
        let expected: Vec<usize> = tokens.iter().enumerate()
            .filter(|(_, t)| !t.is_trivia() && t.kind != TokenKind::Eof).map(|(i, _)| i).collect();
        let pre = preparse(&tokens);
        let (root, arena, _t, _e) = parse_cst(tokens, &pre);
        let mut leaves = vec![];
        collect(&arena, root, &mut leaves);
        (leaves, expected)
    });
    match r {
        Err(_) => None, // a panic is property C04's concern, not C13's
        Ok((leaves, expected)) => (leaves != expected).then(|| format!(
            "Parser::parse::ensures[tree leaves == syntax tokens in source order] leaves={leaves:?} expected={expected:?}")),
    }
}
fn cst_corpus() -> Vec<String> {
    let mut out: Vec<String> = [
        "fn dsp(){0.0}", "let f = |x, y: float| -> float { x + y }", "|_| 1", "|(a, b)| a", "fn dsp(a:float)->float{ a |> f }",
        "let (a,b) = (1,2)\nfn dsp(){ if (a>0) b else {a} }", "mod m { pub fn f(x){x} }\nuse m::f\nfn dsp(){ f(1.0) }",
        "type rec L = N | C(float, L)\nfn dsp(){ match C(1.0,N) { N => 0.0, C(x, _) => x } }",
        "#stage(macro)\nfn m(){ `(1.0) }\n#stage(main)\nfn dsp(){ m!() }", "let r = {a=1, b=2.0}\nfn dsp(){ r.a + self }",
        "fn dsp(){ [1,2,3][0] + delay(10, 1.0, 2) }", "fn f(x = 1.0, y) { x..y }", "include(\"a.mmm\")\nfn dsp(){ $x }",
    ].iter().map(|s| s.to_string()).collect();
    let alphabet = ["x", "_", "1", "1.5", "|", ",", "(", ")", "{", "}", "[", "]", " ", "\n", "fn", "let", "=", ".", "\"s\"", "§",
        ":", "->", "=>", "+", "-", "if", "else", "match", "`", "$", "@", "!", "::", "..", "mod", "use", "pub", "type", "#", ";"];
    let mut frontier: Vec<String> = vec![String::new()];
    for _ in 0..3 {
        let mut next = vec![];
        for s in &frontier { for a in alphabet { next.push(format!("{s}{a}")); } }
        out.extend(next.iter().cloned());
        frontier = next;
    }
    // statement-level contexts around the 2-token fragments
    let two: Vec<String> = alphabet.iter().flat_map(|a| alphabet.iter().map(move |b| format!("{a} {b}"))).collect();
    for f in &two {
        out.push(format!("fn dsp(){{ {f} }}"));
        out.push(format!("let a = |{f}| 1"));
        out.push(format!("fn f({f}){{0}}"));
        out.push(format!("let y = g({f})"));
        out.push(format!("match v {{ {f} => 1 }}"));
    }
    // type annotations: fragments of up to 5 tokens in the two type positions (unions, tuples, function types, parentheses)
    let talpha = ["float", "(", ")", "|", "->", ",", "x"];
    let mut tfront: Vec<String> = vec![String::new()];
    for _ in 0..5 {
        let mut next = vec![];
        for s in &tfront { for a in talpha { next.push(if s.is_empty() { a.to_string() } else { format!("{s} {a}") }); } }
        for f in &next {
            out.push(format!("let a:{f} = 1"));
            out.push(format!("fn f(a:{f}){{a}}"));
        }
        tfront = next;
    }
    // LONG malformed inputs (seed C13o: behaviour that depends on how many errors were recorded): N broken lines of several
    // kinds followed by a well-formed definition -- every token must still be in the tree
    for n in [1usize, 8, 16, 17, 31, 32, 33, 64, 100, 300] {
        for bad in [")", "}", "]", "let = =", "fn (", "1 +", "x . . y", "| |", ", ,"] {
            let mut t = String::new();
            for _ in 0..n { t.push_str(bad); t.push('\n'); }
            t.push_str("fn dsp(){ 1.0 }\n");
            out.push(t);
        }
    }
    out
}

fn main() {
    let args: Vec<String> = std::env::args().collect();
    if args.get(1).map(|s| s.as_str()) == Some("cst-run") {
        match cst_violation(&args[2]) { Some(c) => println!("FAILS {c}"), None => println!("HOLDS") }
        return;
    }
    if args.get(1).map(|s| s.as_str()) == Some("cst-search") {
        std::panic::set_hook(Box::new(|_| {}));
        let corpus = cst_corpus();
        for (i, src) in corpus.iter().enumerate() {
            if let Some(c) = cst_violation(src) {
                println!("FOUND src={src:?} clause={c} tried={}", i + 1);
                return;
            }
        }
        println!("NONE tried={}", corpus.len());
        return;
    }
    if args.get(1).map(|s| s.as_str()) == Some("boxed-search") || args.get(1).map(|s| s.as_str()) == Some("boxed-run") {
        let only: Option<usize> = args.get(2).and_then(|s| s.parse().ok());
        if let (true, Some(o)) = (args[1] == "boxed-run", only) {
            if o >= 1000 {
                let progs = boxed_expect_programs();
                let (name, _src, want) = &progs[(o - 1000).min(progs.len() - 1)];
                let exe = std::env::current_exe().unwrap();
                let out = std::process::Command::new(&exe).args(["boxed-expect", &(o - 1000).to_string()]).output().unwrap();
                let so = String::from_utf8_lossy(&out.stdout).trim().to_string();
                let ok = out.status.success() && so == format!("COUNT {want} {want}");
                println!("{} program={name:?} expected {want} live heap objects after 64 and 128 samples, got `{so}` (exit {:?})", if ok { "HOLDS" } else { "FAILS" }, out.status.code());
                return;
            }
        }
        for (i, (name, src)) in boxed_programs().iter().enumerate() {
            if let Some(o) = only { if o != i { continue; } }
            let r = heap_after(src, 64);
            let bad = match &r { Ok((a, b)) => a != b, Err(_) => false };
            if args[1] == "boxed-run" {
                println!("{} program={name:?} heap objects after 64 / 128 samples = {r:?}", if bad { "FAILS" } else { "HOLDS" });
                return;
            }
            if bad {
                println!("FOUND index={i} value={name:?} clause=C12[live heap objects are the same after sample N and 2N] live heap objects after 64 / 128 samples = {r:?} (must be equal)");
                return;
            }
        }
        // the programs with a known count, each in a child process
        let exe = std::env::current_exe().unwrap();
        for (i, (name, _src, want)) in boxed_expect_programs().iter().enumerate() {
            if args[1] == "boxed-run" { break; }
            let out = std::process::Command::new(&exe).args(["boxed-expect", &i.to_string()]).output().unwrap();
            let so = String::from_utf8_lossy(&out.stdout).trim().to_string();
            if !out.status.success() || so != format!("COUNT {want} {want}") {
                println!("FOUND index={} value={name:?} clause=C12[no heap object is used after it has been released; live heap objects are the same after sample N and 2N] expected {want} live heap objects after 64 and after 128 samples, got `{so}` (exit {:?})", 1000 + i, out.status.code());
                return;
            }
        }
        println!("NONE tried={}", boxed_programs().len() + boxed_expect_programs().len());
        return;
    }
    if args.get(1).map(|s| s.as_str()) == Some("boxed-expect") {
        let i: usize = args.get(2).and_then(|s| s.parse().ok()).unwrap_or(0);
        let progs = boxed_expect_programs();
        match heap_after(&progs[i.min(progs.len() - 1)].1, 64) {
            Ok((a, b)) => println!("COUNT {a} {b}"),
            Err(e) => println!("ERR {e}"),
        }
        return;
    }
    if args.get(1).map(|s| s.as_str()) == Some("alias-scope") {
        // known finding F6 (C17): the `use` alias table is global -- two modules importing different items under the
        // same short name overwrite each other, so a reference resolves to the definition of the LAST `use`
        let src = "mod x { pub fn f() { 1.0 } }\nmod y { pub fn f() { 2.0 } }\nmod a {\n  use x::f\n  pub fn g() { f() }\n}\nmod b {\n  use y::f\n  pub fn g() { f() }\n}\nfn dsp() { a::g() * 10.0 + b::g() }\n";
        match run_vm(src, 1) {
            Ok(v) if v[0] == 12.0 => println!("HOLDS"),
            Ok(v) => println!("FAILS C17[every accepted reference resolves to the definition its module path denotes] a::g() calls `f` imported by `use x::f` inside module a, but resolves to y::f (imported in module b): dsp = {} instead of 12", v[0]),
            Err(e) => println!("HOLDS (program rejected: {e})"),
        }
        return;
    }
    if args.get(1).map(|s| s.as_str()) == Some("layout-search") || args.get(1).map(|s| s.as_str()) == Some("layout-run") {
        // property C05 (compile-time layout == run-time accesses), observed through a hot swap: program A is run for n
        // samples, then swapped (Machine::new_resume = state migration by the published layouts) for program B, which is
        // A with one output-neutral stateful call removed.  The cells B keeps must continue from their values.
        let progs = layout_programs();
        // `layout-child i` runs one program pair in this process; the search runs each pair in a child process because a
        // layout that is too small for the run-time accesses may corrupt the VM's heap
        if args[1] == "layout-search" && args.get(2).map(|s| s.as_str()) == Some("child") {
            let i: usize = args[3].parse().unwrap();
            let (a, b, n, expect, _) = &progs[i];
            match run_hotswap_quiet(a, b, *n, expect.len()) {
                Ok(v) => if v[*n..] == expect[..] { println!("CHILD-OK") } else { println!("CHILD-BAD after the swap got {:?} expected {:?}", &v[*n..], expect) },
                Err(e) => println!("CHILD-BAD error: {e}"),
            }
            return;
        }
        let only: Option<usize> = if args[1] == "layout-run" { args.get(2).and_then(|s| s.parse().ok()) } else { None };
        let exe = std::env::current_exe().unwrap();
        for (i, (_a, _b, _n, _expect, desc)) in progs.iter().enumerate() {
            if let Some(o) = only { if o != i { continue; } }
            let out = std::process::Command::new(&exe).args(["layout-search", "child", &i.to_string()]).output().unwrap();
            let so = String::from_utf8_lossy(&out.stdout).to_string();
            let bad = if !out.status.success() { Some(format!("the VM process died ({}): memory corruption", out.status)) }
                else if so.contains("CHILD-OK") { None } else { Some(so.trim().replace("CHILD-BAD ", "")) };
            if args[1] == "layout-run" {
                match bad { Some(c) => println!("FAILS C05[layout published for `{desc}` != run-time cell positions] {c}"), None => println!("HOLDS") }
                return;
            }
            if let Some(c) = bad {
                println!("FOUND index={i} value={desc:?} clause=C05[layout published for the function != run-time cell positions: untouched cell does not continue across a hot swap] {c}");
                return;
            }
        }
        println!("NONE tried={}", progs.len());
        return;
    }
    if args.get(1).map(|s| s.as_str()) == Some("schedvm-search") || args.get(1).map(|s| s.as_str()) == Some("schedvm-run") {
        // property C11 on the NATIVE VM (SchedulerAudioWorker::on_sample driven by the real local-buffer driver):
        // small programs whose output is a closed form of "every task runs exactly once at its sample, before dsp"
        let progs = schedvm_programs();
        let only: Option<usize> = args.get(2).and_then(|s| s.parse().ok());
        if args[1] == "schedvm-search" {
            // every program in a child process: a closure that is dropped too early is undefined behaviour in the VM
            let exe = std::env::current_exe().unwrap();
            for (i, (_src, _expect, desc)) in progs.iter().enumerate() {
                let out = std::process::Command::new(&exe).args(["schedvm-run", &i.to_string()]).output().unwrap();
                let so = String::from_utf8_lossy(&out.stdout).to_string();
                let clause = "SchedulerAudioWorker::on_sample::ensures[each task runs exactly once at the sample equal to its time, before dsp]";
                if !out.status.success() {
                    println!("FOUND index={i} value={desc:?} clause={clause} the VM process died ({}) -- a task closure was used after it had been dropped", out.status);
                    return;
                }
                if let Some(rest) = so.trim().strip_prefix("FAILS ") {
                    println!("FOUND index={i} value={desc:?} clause={clause} {}", rest.replace('\n', " "));
                    return;
                }
            }
            println!("NONE tried={}", progs.len());
            return;
        }
        for (i, (src, expect, desc)) in progs.iter().enumerate() {
            if let Some(o) = only { if o != i { continue; } }
            let got = std::panic::catch_unwind(|| run_vm_sched(src, expect.len()));
            let mut bad = match got {
                Ok(Ok(v)) => if v == *expect { None } else { Some(format!("got {v:?} expected {expect:?}")) },
                Ok(Err(e)) => Some(format!("rejected: {e}")),
                Err(_) => Some("the VM scheduler panicked".to_string()),
            };
            // ... and rendered in blocks (2 and 1 samples per play() call): the sample clock continues across the calls
            if bad.is_none() {
                for block in [2usize, 1] {
                    if expect.len() % block != 0 { continue; }
                    let gotb = std::panic::catch_unwind(|| run_vm_sched_blocks(src, block, expect.len() / block));
                    match gotb {
                        Ok(Ok(v)) => if v != *expect { bad = Some(format!("rendered in blocks of {block}: got {v:?} expected {expect:?}")); },
                        Ok(Err(e)) => bad = Some(format!("rejected: {e}")),
                        Err(_) => bad = Some("the VM scheduler panicked".to_string()),
                    }
                    if bad.is_some() { break; }
                }
            }
            if args[1] == "schedvm-run" {
                match bad { Some(c) => println!("FAILS SchedulerAudioWorker::on_sample::ensures[{desc}] {c}"), None => println!("HOLDS") }
                return;
            }
            if let Some(c) = bad {
                println!("FOUND index={i} value={desc:?} clause=SchedulerAudioWorker::on_sample::ensures[each task runs exactly once at the sample equal to its time, before dsp] {c}");
                return;
            }
        }
        println!("NONE tried={}", progs.len());
        return;
    }
    if args.get(1).map(|s| s.as_str()) == Some("branch-state") {
        // finding F8 (C05, also C03/C02): stateful calls inside the branches of an `if`.  Each program is run in a
        // child process because the VM may corrupt its heap (the parent reports a crash as a failure).
        let progs = branch_state_programs();
        if let Some(i) = args.get(2).and_then(|s| s.parse::<usize>().ok()) {
            let (src, expect, _) = &progs[i];
            match run_vm(src, expect.len()) { Ok(v) => println!("OUT {v:?}"), Err(e) => println!("ERR {e}") }
            return;
        }
        let exe = std::env::current_exe().unwrap();
        for (i, (_src, expect, desc)) in progs.iter().enumerate() {
            let out = std::process::Command::new(&exe).args(["branch-state", &i.to_string()]).output().unwrap();
            let so = String::from_utf8_lossy(&out.stdout).to_string();
            if !out.status.success() {
                println!("FAILS C05[state accesses inside the storage sized from the layout] `{desc}`: the VM process died ({}) -- memory corruption", out.status);
                return;
            }
            if so.trim() != format!("OUT {expect:?}") {
                println!("FAILS C05[each state cell at the offset the layout assigns to it] `{desc}`: got {} expected {expect:?}", so.trim());
                return;
            }
        }
        println!("HOLDS");
        return;
    }
    if args.get(1).map(|s| s.as_str()) == Some("hotswap") {
        // developer aid: run file A for n samples on the VM, hot-swap to file B (Machine::new_resume), run m more
        let a = std::fs::read_to_string(&args[2]).unwrap();
        let b = std::fs::read_to_string(&args[3]).unwrap();
        let n: usize = args[4].parse().unwrap();
        let m: usize = args[5].parse().unwrap();
        match run_hotswap(&a, &b, n, m) { Ok(v) => println!("OUT {v:?}"), Err(e) => println!("ERR {e}") }
        return;
    }
    if args.get(1).map(|s| s.as_str()) == Some("closure-growth") {
        // known finding F13 (C12): programs whose live closure / heap object counts grow with every dsp call
        let progs: Vec<(&str, &str)> = vec![
            ("closure bound by let and called", "fn dsp(){\n    let x = 9.0\n    let f = | | { x - 5.0 }\n    f()\n}\n"),
            // F30: a named function passed as an argument (a closure and a heap wrapper are made for the call)
            ("named function passed as an argument", "fn hof(f, x){ f(x) }\nfn tri(y){ y*3.0 }\nfn dsp(){\n    hof(tri, 4.0)\n}\n"),
        ];
        let only: usize = args.get(2).and_then(|s| s.parse().ok()).unwrap_or(0);
        for (desc, src) in progs.into_iter().skip(only).take(1) {
            match live_counts(src, 64) {
                Ok(((c1, h1), (c2, h2))) => {
                    if c1 != c2 || h1 != h2 {
                        println!("FAILS C12[live closures and heap objects after sample N == after sample 2N] `{desc}`: (closures, heap objects) = ({c1}, {h1}) after 64 samples, ({c2}, {h2}) after 128");
                        return;
                    }
                }
                Err(e) => { println!("HOLDS (program rejected: {e})"); return; }
            }
        }
        println!("HOLDS");
        return;
    }
    if args.get(1).map(|s| s.as_str()) == Some("wasm-exchange") {
        // C05, last sentence (state words identical on the VM and the WASM runtime) seen through the outputs: the WASM code
        // exchanges state words with the host through buffers in linear memory; they must not overlap anything else
        let only: Option<usize> = args.get(2).and_then(|s| s.parse().ok());
        let progs = exchange_programs();
        // without an index: every program in a child process (a wrong cursor may corrupt the VM's heap and abort)
        if only.is_none() {
            let exe = std::env::current_exe().unwrap();
            for (i, (_src, desc)) in progs.iter().enumerate() {
                let out = std::process::Command::new(&exe).args(["wasm-exchange", &i.to_string()]).output().unwrap();
                let so = String::from_utf8_lossy(&out.stdout).to_string();
                if !out.status.success() {
                    println!("FAILS C05[state accesses inside the storage sized from the layout] index={i} `{desc}`: the process died ({}) -- memory corruption", out.status);
                    return;
                }
                if let Some(l) = so.lines().find(|l| l.starts_with("FAILS")) { println!("{l}"); return; }
            }
            println!("HOLDS tried={}", progs.len());
            return;
        }
        for (i, (src, desc)) in progs.iter().enumerate() {
            if let Some(o) = only { if o != i { continue; } }
            let vm = run_vm(src, 4);
            let wasm = run_wasm(src, 4);
            match (vm, wasm) {
                (Ok(a), Ok(b)) if a == b => {}
                (a, b) => { println!("FAILS C05[state identical on VM and WASM] index={i} `{desc}`: vm={a:?} wasm={b:?}"); return; }
            }
        }
        println!("HOLDS tried=1");
        return;
    }
    if args.get(1).map(|s| s.as_str()) == Some("type-serde-search") || args.get(1).map(|s| s.as_str()) == Some("type-serde-run") {
        let only: Option<usize> = args.get(2).and_then(|s| s.parse().ok());
        match type_serde_violation(only) {
            Some((i, v, c)) => {
                // one line: the Debug form of Type is multi-line
                let one = |s: String| s.split_whitespace().collect::<Vec<_>>().join(" ");
                println!("{} index={i} value={} clause={}", if args[1] == "type-serde-run" { "FAILS" } else { "FOUND" }, one(v), one(c))
            }
            None => println!("{}", if args[1] == "type-serde-run" { "HOLDS" } else { "NONE" }),
        }
        return;
    }
    if args.get(1).map(|s| s.as_str()) == Some("let-release") {
        let idx: usize = args.get(2).and_then(|s| s.parse().ok()).unwrap_or(0);
        let progs = let_release_programs();
        let (src, want, desc) = &progs[idx.min(progs.len() - 1)];
        let prev = std::panic::take_hook();
        std::panic::set_hook(Box::new(|_| {}));
        let r = std::panic::catch_unwind(|| run_vm(src, want.len()));
        std::panic::set_hook(prev);
        match r {
            Ok(Ok(v)) if &v == want => println!("HOLDS"),
            Ok(Ok(v)) => println!("FAILS C12[no heap object is used after it has been released] `{desc}`: outputs {v:?}, expected {want:?}"),
            Ok(Err(e)) => println!("HOLDS (program rejected: {e})"),
            Err(p) => {
                let msg = p.downcast_ref::<String>().cloned().or_else(|| p.downcast_ref::<&str>().map(|s| s.to_string())).unwrap_or_default();
                println!("FAILS C12[no heap object is used after it has been released] `{desc}`: the VM panics with `{msg}`");
            }
        }
        return;
    }
    if args.get(1).map(|s| s.as_str()) == Some("heap-growth") {
        // known findings F22-F24 (C12, boundedness clause): boxed values whose reference count never returns to zero
        let idx: usize = args.get(2).and_then(|s| s.parse().ok()).unwrap_or(0);
        let decl = "type rec L = Nil | Cons(float, L)\n";
        let progs = [
            (format!("{decl}fn id(l) {{ 1.0 }}\nfn dsp() {{\n  let l = Cons(1.0, Nil)\n  id(l)\n}}\n"), "a let-bound boxed list is passed to a function that ignores it"),
            (format!("{decl}fn dsp() {{\n  let l = Cons(1.0, Nil)\n  match l {{\n    Cons(h, _) => h,\n    Nil => 0.0\n  }}\n}}\n"), "a let-bound boxed list is matched against a constructor pattern with a payload"),
            (format!("{decl}fn dsp() {{\n  let l = Cons(1.0, Cons(2.0, Nil))\n  1.0\n}}\n"), "a constructor application is passed directly as the argument of another constructor"),
        ];
        let (src, desc) = &progs[idx.min(progs.len() - 1)];
        match heap_after(src, 64) {
            Ok((a, b)) if a == b => println!("HOLDS"),
            Ok((a, b)) => println!("FAILS C12[live heap objects after sample N == after sample 2N] `{desc}`: {a} live heap objects after 64 samples, {b} after 128"),
            Err(e) => println!("HOLDS (program rejected: {e})"),
        }
        return;
    }
    if args.get(1).map(|s| s.as_str()) == Some("drop-shared") {
        let only: Option<usize> = args.get(2).and_then(|s| s.parse().ok());
        for (i, (pattern, hb)) in dropshared::cases().iter().enumerate() {
            if let Some(o) = only { if o != i { continue; } }
            let r = std::panic::catch_unwind(|| dropshared::live_after(pattern, *hb, 8));
            match r {
                Ok(c) if c.iter().all(|x| *x == (0, 0)) => {}
                Ok(c) => { println!("FAILS C12[live closures and heap objects are the same after sample N and 2N] index={i} a closed task closure capturing closures {pattern:?} (heap-backed: {hb}) is run and dropped every sample: (closures, heap objects) alive after samples 1..8 = {c:?}"); return; }
                Err(_) => { println!("FAILS C12[no closure is used after release] index={i} captures {pattern:?} (heap-backed: {hb}): the VM panics"); return; }
            }
        }
        println!("HOLDS tried={}", dropshared::cases().len());
        return;
    }
    if args.get(1).map(|s| s.as_str()) == Some("module-let") {
        // known findings F18 / F19 (C17): members of a module that cannot even be declared `pub` are reachable from outside
        let idx: usize = args.get(2).and_then(|s| s.parse().ok()).unwrap_or(0);
        let progs = [
            ("mod m {\n  fn hidden(){ 7.0 }\n  let y = hidden()\n}\nfn dsp(){ y }\n", "a module-level `let` of module m is referenced from outside the module by its bare name"),
            ("mod m {\n  type Shape = Circle(float) | Square(float)\n  pub fn area(s){ match s { Circle(r) => r, Square(w) => w } }\n}\nfn dsp(){ m::area(Circle(3.0)) }\n", "a constructor of the non-pub type m::Shape is used outside the module by its bare name"),
            ("mod m {\n  fn secret() { 42.0 }\n  let k = 1.0\n}\nfn k() { m::secret() }\nfn dsp() { k() }\n", "a top-level function that merely has the NAME of a module-level `let` of m is converted in m's module context and reaches m's private function"),
        ];
        let (src, desc) = progs[idx.min(progs.len() - 1)];
        let errs = compile_errors(src);
        if errs.is_empty() {
            println!("FAILS C17[a member not declared pub cannot be referenced from outside its module] {desc}: the program is accepted ({:?})", run_vm(src, 1));
        } else {
            println!("HOLDS rejected: {errs:?}");
        }
        return;
    }
    if args.get(1).map(|s| s.as_str()) == Some("state-misc") {
        // known findings F31 / F32 (C05), side observations of seeding agent C05m confirmed with the real back ends.
        // Every program runs in a child process (an access outside the storage may kill the VM).
        let progs: [(&str, &[f64], &str); 3] = [
            ("fn counter(){ self+1.0 }\nfn foo(x = counter(), y = 200.0){ x+y }\nfn dsp(){\n  foo({..})\n}\n", &[201.0, 202.0, 203.0, 204.0],
             "a stateful DEFAULT-ARGUMENT expression: its cell is in no published layout"),
            ("fn counter(){ self+1.0 }\nfn other(){ self+10.0 }\nfn dsp(){\n  let fs = [counter, other]\n  let f = fs[0]\n  let a = other()\n  let b = f()\n  let c = other()\n  a + b*1000.0 + c*1000000.0\n}\n", &[10001010.0, 20001020.0, 30001030.0, 40001040.0],
             "a stateful function taken out of an array and called"),
            ("fn counter(inc){ self + inc }\nfn three(){ counter(1.0) + counter(2.0) + counter(3.0) }\nfn sw(c){\n  if (c) {\n    delay(1.0, 5.0, 1.0)\n  } else {\n    three()\n  }\n}\nfn dsp(){\n  let n = counter(1.0)\n  sw(n < 3.0)\n}\n", &[0.0, 5.0, 6.0, 12.0, 18.0, 24.0],
             "the two branches of an `if` own cells of different kinds (a delay line / three feedback cells): the layout lists only the larger branch's cells and both branches run on the same words"),
        ];
        let idx: usize = args.get(2).and_then(|s| s.parse().ok()).unwrap_or(0).min(progs.len() - 1);
        let (src, expect, desc) = progs[idx];
        if let Some(be) = args.get(3) {
            let r = if be == "wasm" { run_wasm(src, expect.len()) } else { run_vm(src, expect.len()) };
            match r { Ok(v) => println!("OUT {v:?}"), Err(e) => println!("ERR {e}") }
            return;
        }
        let exe = std::env::current_exe().unwrap();
        let mut outs = vec![];
        for be in ["vm", "wasm"] {
            let out = std::process::Command::new(&exe).args(["state-misc", &idx.to_string(), be]).output().unwrap();
            if !out.status.success() {
                println!("FAILS C05[every read or write of state falls inside the storage sized from the layout] {desc}: the {be} process died ({})", out.status);
                return;
            }
            outs.push(String::from_utf8_lossy(&out.stdout).trim().to_string());
        }
        let want = format!("OUT {expect:?}");
        if outs[0] != want || outs[1] != want {
            println!("FAILS C05[each cell at the offset the layout assigns to it; state identical on VM and WASM] {desc}: vm `{}` wasm `{}` expected {expect:?}", outs[0], outs[1]);
        } else {
            println!("HOLDS");
        }
        return;
    }
    if args.get(1).map(|s| s.as_str()) == Some("loader-seq") {
        if let Some(f) = loaderseq::search() { println!("{f}"); }
        return;
    }
    if args.get(1).map(|s| s.as_str()) == Some("wasm-alloc") {
        let only: Option<usize> = args.get(2).and_then(|s| s.parse().ok());
        const N: usize = 200;
        for (i, (desc, src)) in wasm_alloc_programs().iter().enumerate() {
            if let Some(o) = only { if o != i { continue; } }
            match wasm_alloc_after(src, 2 * N) {
                Ok(p) => {
                    if p[N - 1] != p[2 * N - 1] {
                        println!("FOUND index={i} value={desc:?} clause=C12[live closures after sample N == after sample 2N, WASM runtime] __alloc_ptr after tick {N} is {} but after tick {} it is {} ({} bytes per tick)", p[N - 1], 2 * N, p[2 * N - 1], (p[2 * N - 1] - p[N - 1]) as f64 / N as f64);
                        return;
                    }
                }
                Err(e) => { println!("FOUND index={i} value={desc:?} clause=C12[WASM runtime] the program does not run: {e}"); return; }
            }
        }
        println!("NONE tried={}", wasm_alloc_programs().len());
        return;
    }
    if args.get(1).map(|s| s.as_str()) == Some("wasm-hotswap") {
        // C05 / C08 through the WASM runtime's hot swap: after the swap the WASM runtime continues exactly as the VM does
        let only: Option<usize> = args.get(2).and_then(|s| s.parse().ok());
        let mut cases: Vec<(String, String, usize, usize, String)> = layout_programs().into_iter().map(|(a, b, n, ex, d)| { let m = ex.len(); (a, b, n, m, d) }).collect();
        cases.extend(disjoint_swap_programs());
        for (i, (a, b, n, m, desc)) in cases.iter().enumerate() {
            if let Some(o) = only { if o != i { continue; } }
            let vm = run_hotswap_quiet(a, b, *n, *m);
            let wasm = run_wasm_hotswap(a, b, *n, *m);
            match (&vm, &wasm) {
                (Ok(v), Ok(w)) if v == w => {}
                _ => {
                    println!("FOUND index={i} value={desc:?} clause=C05[after a hot swap the state words are identical on the VM and the WASM runtime; the new storage is sized and laid out from the new layout] vm={vm:?} wasm={wasm:?}");
                    return;
                }
            }
        }
        println!("NONE tried={}", cases.len());
        return;
    }
    if args.get(1).map(|s| s.as_str()) == Some("macro-result") {
        let only: Option<usize> = args.get(2).and_then(|s| s.parse().ok());
        let prev = std::panic::take_hook();
        std::panic::set_hook(Box::new(|_| {}));
        for (i, (src, want, desc)) in macroresult::programs().iter().enumerate() {
            if let Some(o) = only { if o != i { continue; } }
            let got = macroresult::run(src);
            let bad = match (want, &got) { (Some(v), Ok(o)) => o.first().map(|x| x.to_bits()) != Some(v.to_bits()), (Some(_), Err(_)) => true, (None, Ok(_)) => true, (None, Err(_)) => false };
            if bad {
                std::panic::set_hook(prev);
                println!("FOUND index={i} value={desc:?} clause=C20[values that cannot cross the boundary are refused with an error rather than silently altered; what crosses decodes to what was encoded] program `{src}`: got {got:?}, expected {}", match want { Some(v) => format!("[{v:?}]"), None => "a refusal".to_string() });
                return;
            }
        }
        std::panic::set_hook(prev);
        println!("NONE tried={}", macroresult::programs().len());
        return;
    }
    if args.get(1).map(|s| s.as_str()) == Some("sched-state") {
        // known finding F34 (C05): a scheduled task that owns state.  Whatever storage the task's own counter lives in, it must
        // not be dsp's cell: dsp's counter (the output modulo 100) has to advance by exactly one per sample.
        let src = "fn counter(){ self + 1.0 }\nlet x = 0.0\nfn updater(){\n  x = counter()\n  updater@(now+1.0)\n}\nupdater@1.0\nfn dsp(){ counter() + x*100.0 }\n";
        match run_vm_sched(src, 6) {
            Ok(v) => {
                let own: Vec<f64> = v.iter().map(|o| o % 100.0).collect();
                if own == vec![1.0, 2.0, 3.0, 4.0, 5.0, 6.0] { println!("HOLDS"); }
                else { println!("FAILS C05[every read or write of `self` state falls at the offset the layout assigns to THAT cell] a scheduled task with a `self` cell runs on the global storage: dsp's own counter (output mod 100) reads {own:?} instead of [1, 2, 3, 4, 5, 6] (outputs {v:?})"); }
            }
            Err(e) => println!("HOLDS (program rejected: {e})"),
        }
        return;
    }
    if args.get(1).map(|s| s.as_str()) == Some("module-misc") {
        // known findings F27 - F29 (C17), side observations of seeding agent C17m confirmed with the real compiler
        let idx: usize = args.get(2).and_then(|s| s.parse().ok()).unwrap_or(0);
        // (program, Some(expected first sample) | None = must be rejected, description)
        let progs: [(&str, Option<f64>, &str); 4] = [
            ("fn helper() { 1.0 }\nmod m {\n  fn helper() { 2.0 }\n  pub fn run() { helper() }\n}\nfn dsp() { m::run() }\n", Some(2.0),
             "a bare reference inside module m to m's own function `helper` resolves to an EARLIER top-level function of the same name (with the top-level function declared after the module it resolves to m::helper)"),
            ("mod outer {\n  mod inner {\n    pub fn f() { 3.0 }\n  }\n}\nfn dsp() { outer::inner::f() }\n", None,
             "a pub function of the NON-pub nested module outer::inner is referenced from the top level through the qualified path"),
            ("mod m {\n  fn secret() { 42.0 }\n  pub type alias secret = float\n}\nfn dsp() { m::secret() }\n", None,
             "the private function m::secret is referenced from outside because a pub type alias of the same name shares its visibility entry"),
            ("mod m {\n  fn secret() { 42.0 }\n  let y = 1.0\n}\nlet y = m::secret()\nfn dsp() { y }\n", None,
             "the private function m::secret is referenced from the right-hand side of a TOP-LEVEL `let y` because module m has a module-level `let y` of the same (unmangled) name, whose module context the top-level binding inherits"),
        ];
        let (src, expect, desc) = progs[idx.min(progs.len() - 1)];
        let errs = compile_errors(src);
        match expect {
            None => {
                if errs.is_empty() {
                    println!("FAILS C17[a member not declared pub cannot be referenced from outside its module] {desc}: the program is accepted ({:?})", run_vm(src, 1));
                } else {
                    println!("HOLDS rejected: {errs:?}");
                }
            }
            Some(v) => match run_vm(src, 1) {
                Ok(out) if out == vec![v] => println!("HOLDS"),
                other => println!("FAILS C17[every accepted reference resolves to the unique definition its module path denotes] {desc}: got {other:?} expected [{v:?}]"),
            },
        }
        return;
    }
    if args.get(1).map(|s| s.as_str()) == Some("wasm-sched-closure") {
        // known finding F20 (C11): a closure created inside dsp that captures a per-sample local and is scheduled for a
        // later sample; by the time it runs on the WASM runtime its memory has been reused
        let src = "let x = 0.0\nfn dsp(){\n  let n = now\n  | |{ x = x + n }@(now+2.5)\n  x\n}\n";
        let expect: Vec<f64> = (0..8i64).map(|s| (0..=(s - 2).max(-1)).map(|t| t as f64).sum::<f64>() + 0.0).collect();
        let vm = run_vm_sched(src, 8);
        let wasm = run_wasm_sched(src, 8);
        match (&vm, &wasm) {
            (Ok(a), Ok(b)) if *a == expect && *b == expect => println!("HOLDS"),
            _ => println!("FAILS C11[each task runs exactly once at its sample ..; the VM and WASM runtimes agree] closures created in dsp capturing the current sample index, scheduled 2.5 samples ahead: expected {expect:?}, vm={vm:?}, wasm={wasm:?}"),
        }
        return;
    }
    if args.get(1).map(|s| s.as_str()) == Some("sched-src") {
        // developer aid: a program file with the scheduler plugin on the VM and on the WASM runtime
        let src = std::fs::read_to_string(&args[2]).unwrap();
        let n: usize = args.get(3).and_then(|s| s.parse().ok()).unwrap_or(8);
        println!("VM   {:?}", run_vm_sched(&src, n));
        println!("WASM {:?}", run_wasm_sched(&src, n));
        return;
    }
    if args.get(1).map(|s| s.as_str()) == Some("heap-src") {
        // developer aid: live heap objects / closures of a program file after n and 2n samples
        let src = std::fs::read_to_string(&args[2]).unwrap();
        let n: usize = args.get(3).and_then(|s| s.parse().ok()).unwrap_or(64);
        println!("heap {:?} (closures, heap) {:?}", heap_after(&src, n), live_counts(&src, n));
        return;
    }
    if args.get(1).map(|s| s.as_str()) == Some("run-src") {
        // developer aid: run a program file on the real VM for n samples and print the outputs / the diagnostics
        let src = std::fs::read_to_string(&args[2]).unwrap();
        let n: usize = args.get(3).and_then(|s| s.parse().ok()).unwrap_or(4);
        match run_vm(&src, n) { Ok(v) => println!("OUT {v:?}"), Err(e) => println!("ERR {e}") }
        return;
    }
    if args.get(1).map(|s| s.as_str()) == Some("delay-pair") {
        let v: Vec<u64> = args[2..6].iter().map(|x| x.parse().unwrap()).collect();
        match delay_pair_violation(v[0], v[1], v[2], v[3]) {
            Some(c) => println!("FAILS {c}"),
            None => println!("HOLDS"),
        }
        return;
    }
    if args.get(1).map(|s| s.as_str()) == Some("sched-search") || args.get(1).map(|s| s.as_str()) == Some("sched-run") {
        let only: Option<usize> = args.get(2).and_then(|s| s.parse().ok());
        for (i, (tasks, last)) in sched_cases().iter().enumerate() {
            if let Some(o) = only { if o != i { continue; } }
            let r = std::panic::catch_unwind(|| sched_violation(tasks, *last)).unwrap_or(Some("panic".into()));
            if args[1] == "sched-run" {
                match r { Some(c) => println!("FAILS tasks={tasks:?} clause={c}"), None => println!("HOLDS tasks={tasks:?}") }
                return;
            }
            if let Some(c) = r {
                println!("FOUND index={i} value={tasks:?} clause={c}");
                return;
            }
        }
        println!("NONE tried={}", sched_cases().len());
        return;
    }
    if args.get(1).map(|s| s.as_str()) == Some("shadow-search") || args.get(1).map(|s| s.as_str()) == Some("shadow-run") {
        // property C17, shadowing clause: a local binding (let / parameter) wins over an imported or sibling name, also
        // after an inner scope that re-bound the same name has been closed
        let progs = shadow_programs();
        let only: Option<usize> = args.get(2).and_then(|s| s.parse().ok());
        for (i, (src, want, desc)) in progs.iter().enumerate() {
            if let Some(o) = only { if o != i { continue; } }
            let prev = std::panic::take_hook();
            std::panic::set_hook(Box::new(|_| {}));
            let r = std::panic::catch_unwind(|| run_vm(src, 1));
            std::panic::set_hook(prev);
            let got = match r { Ok(Ok(v)) => format!("{:?}", v), Ok(Err(e)) => format!("rejected: {e}"), Err(_) => "VM panic".to_string() };
            let bad = got != format!("[{want:?}]");
            if args[1] == "shadow-run" {
                println!("{} index={i} program={desc:?} output={got} expected=[{want:?}]", if bad { "FAILS" } else { "HOLDS" });
                return;
            }
            if bad {
                println!("FOUND index={i} value={desc:?} clause=C17[a local binding shadows an imported / sibling name] output={got} expected=[{want:?}]");
                return;
            }
        }
        println!("NONE tried={}", progs.len());
        return;
    }
    if args.get(1).map(|s| s.as_str()) == Some("privacy-search") || args.get(1).map(|s| s.as_str()) == Some("privacy-run") {
        let progs = privacy_programs();
        let only: Option<usize> = args.get(2).and_then(|s| s.parse().ok());
        let mut found = false;
        for (i, (src, must_reject, desc)) in progs.iter().enumerate() {
            if let Some(o) = only { if o != i { continue; } }
            let errs = compile_errors(src);
            let rejected = !errs.is_empty();
            let bad = *must_reject != rejected;
            if args[1] == "privacy-run" {
                println!("{} index={i} route={desc:?} must_reject={must_reject} rejected={rejected} errors={errs:?}", if bad { "FAILS" } else { "HOLDS" });
                return;
            }
            if bad {
                println!("FOUND index={i} value={desc:?} clause=C17[private member {} from outside its module] errors={errs:?}", if *must_reject { "accepted" } else { "rejected although inside" });
                if std::env::var("VX_ALL").is_err() { return; }
                found = true;
            }
        }
        if !found { println!("NONE tried={}", progs.len()); }
        return;
    }
    let l0 = leaves();
    let l1 = wrap(&l0);
    let mut l2 = wrap(&l1.iter().step_by(7).cloned().collect::<Vec<_>>());
    l2.truncate(20000);
    let all: Vec<Value> = l0.into_iter().chain(l1).chain(l2).collect();
    match args.get(1).map(|s| s.as_str()) {
        Some("search") => {
            for (i, v) in all.iter().enumerate() {
                if let Some(c) = violation(v) {
                    println!("FOUND index={i} value={} clause={c}", show(v));
                    return;
                }
            }
            println!("NONE tried={}", all.len());
        }
        Some("run") => {
            let i: usize = args[2].parse().unwrap();
            match violation(&all[i]) {
                Some(c) => println!("FAILS value={} clause={c}", show(&all[i])),
                None => println!("HOLDS value={}", show(&all[i])),
            }
        }
        _ => {
            eprintln!("usage: ffi_replay search | run INDEX");
            std::process::exit(2);
        }
    }
}
