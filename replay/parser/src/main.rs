//! Replay harness for the parser_tokens / preparse contracts (property C13): real token.rs,
//! tokenizer.rs and preparser.rs compiled unchanged through #[path].  Never decides anything.
#![allow(dead_code, unused_imports)]
mod parser {
    #[path = "/repo/crates/lib/mimium-lang/src/compiler/parser/token.rs"]
    pub mod token;
    #[path = "/repo/crates/lib/mimium-lang/src/compiler/parser/tokenizer.rs"]
    pub mod tokenizer;
    #[path = "/repo/crates/lib/mimium-lang/src/compiler/parser/preparser.rs"]
    pub mod preparser;
}
use parser::preparser::preparse;
use parser::token::{Token, TokenKind};
use parser::tokenizer::tokenize;

/// executable copy of `lossless` (tokenize::ensures)
fn lossless_violation(src: &str, ts: &[Token]) -> Option<String> {
    let Some(last) = ts.last() else { return Some("tokenize::ensures[lossless: no Eof]".into()) };
    if last.kind != TokenKind::Eof || last.start != src.len() || last.length != 0 {
        return Some(format!("tokenize::ensures[lossless: Eof marker] last={last:?}"));
    }
    let mut pos = 0usize;
    for (i, t) in ts[..ts.len() - 1].iter().enumerate() {
        if t.start != pos {
            return Some(format!("tokenize::ensures[lossless: tiles] token #{i} {t:?} starts at {} expected {pos}", t.start));
        }
        pos += t.length;
        if !src.is_char_boundary(pos) {
            return Some(format!("tokenize::ensures[lossless: char boundary] token #{i} {t:?}"));
        }
    }
    if pos != src.len() {
        return Some(format!("tokenize::ensures[lossless: tiles] tokens end at {pos}, text has {} bytes", src.len()));
    }
    None
}
/// executable copy of the preparse postcondition; `allow_f2` excludes exactly the known-finding block
fn trivia_violation(ts: &[Token], allow_f2: bool) -> Option<String> {
    let pre = preparse(ts);
    let syn: Vec<usize> = (0..ts.len()).filter(|&i| !ts[i].is_trivia() && ts[i].kind != TokenKind::Eof).collect();
    if pre.token_indices != syn {
        return Some("preparse::ensures[token_indices == syntax_idx]".into());
    }
    let mut count = vec![0usize; ts.len()];
    for m in [&pre.leading_trivia_map, &pre.trailing_trivia_map] {
        for (k, list) in m.iter() {
            if *k >= syn.len() {
                return Some(format!("preparse::ensures[owner_ok: key {k} is not a syntax token position]"));
            }
            for &j in list {
                if j >= ts.len() || !ts[j].is_trivia() {
                    return Some(format!("preparse::ensures[owner_ok: attached index {j} is not a trivia token]"));
                }
                count[j] += 1;
            }
        }
    }
    let first_syn = syn.first().copied();
    for j in 0..ts.len() {
        if !ts[j].is_trivia() {
            continue;
        }
        if count[j] > 1 {
            return Some(format!("preparse::ensures[owner_ok: trivia token #{j} attached {} times]", count[j]));
        }
        if count[j] == 0 && !syn.is_empty() {
            // dropped_upto: j is at or before a LineBreak that precedes the first syntax token
            let f2 = first_syn.map_or(false, |fs| (j..fs).any(|lb| ts[lb].kind == TokenKind::LineBreak));
            if !(allow_f2 && f2) {
                return Some(format!("preparse::ensures[coverage: trivia token #{j} {:?} attached to no token]{}", ts[j].kind, if f2 { " (file-leading block, F2)" } else { "" }));
            }
        }
    }
    None
}
fn check(src: &str, allow_f2: bool) -> Option<String> {
    let ts = std::panic::catch_unwind(|| tokenize(src)).ok()?;
    lossless_violation(src, &ts).or_else(|| trivia_violation(&ts, allow_f2))
}
fn main() {
    let args: Vec<String> = std::env::args().collect();
    match args.get(1).map(|s| s.as_str()) {
        // known finding F2: strict property (no exclusion)
        Some("strict") => match check(&args[2], false) {
            Some(c) => println!("FAILS {c}"),
            None => println!("HOLDS"),
        },
        Some("run") => match check(&args[2], true) {
            Some(c) => println!("FAILS {c}"),
            None => println!("HOLDS"),
        },
        Some("search") => {
            let max: usize = args[2].parse().unwrap();
            // single characters, multi-byte characters (2, 3 and 4 bytes, incl. the byte order mark and a zero-width
            // joiner), comment delimiters, CR/LF, tabs, string quotes, a keyword and a projection-like float
            let alphabet = ["a", "1", ".", " ", "\n", "//", "/*", "*/", "(", "§", "€", "\"", "+", "fn",
                            "\u{feff}", "\r\n", "\t", "é", "日", "𝄞", "\u{200d}", "0.1", "_", "|"];
            let mut frontier: Vec<String> = vec![String::new()];
            let mut tried = 0u64;
            for _ in 0..max {
                let mut next = vec![];
                for s in &frontier {
                    for a in alphabet {
                        let t = format!("{s}{a}");
                        tried += 1;
                        if let Some(c) = check(&t, true) {
                            println!("FOUND src={t:?} clause={c} tried={tried}");
                            return;
                        }
                        next.push(t);
                    }
                }
                frontier = next;
            }
            // every ASCII character (controls included) and a few multi-character tokens: all strings of up to 2 of them
            // (3 with MAXLEN >= 5, the thorough tier) -- every pair of adjacent lexer sub-parsers, operators that share a
            // prefix, escapes in strings, number forms
            {
                let mut alpha2: Vec<String> = (0u8..128).map(|b| (b as char).to_string()).collect();
                for t in ["fn", "let", "->", "<-", "=>", "||>", "|>", "..", "::", "\\\"", "1e5", "0x1F", "1.0.2", "self", "now", "_x", "x_1"] { alpha2.push(t.to_string()); }
                let depth2 = if max >= 5 { 3 } else { 2 };
                let mut frontier: Vec<String> = vec![String::new()];
                for _ in 0..depth2 {
                    let mut next = vec![];
                    for s in &frontier {
                        for a in &alpha2 {
                            let t = format!("{s}{a}");
                            tried += 1;
                            if let Some(c) = check(&t, true) {
                                println!("FOUND src={t:?} clause={c} tried={tried}");
                                return;
                            }
                            next.push(t);
                        }
                    }
                    frontier = next;
                }
            }
            // every scalar value below U+3100 (Latin .. CJK punctuation: all the Unicode blanks, controls, format characters
            // and the full-width space live there), every `char::is_whitespace` / control character, and a sample of the
            // rest: alone, and between two syntax tokens (seed C13m: a blank the lexer's own blank set does not contain)
            for cp in 0u32..=0x10FFFF {
                let Some(c) = char::from_u32(cp) else { continue };
                if !(cp < 0x3100 || c.is_whitespace() || c.is_control() || cp % 257 == 0) { continue; }
                for t in [c.to_string(), format!("a{c}1"), format!("{c}fn")] {
                    tried += 1;
                    if let Some(cl) = check(&t, true) {
                        println!("FOUND src={t:?} clause={cl} tried={tried}");
                        return;
                    }
                }
            }
            println!("NONE tried={tried}");
        }
        _ => {
            eprintln!("usage: parser_replay strict SRC | run SRC | search MAXLEN");
            std::process::exit(2);
        }
    }
}
