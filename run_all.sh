#!/bin/sh
# convenience: run every registered check (quick tier by default) and validate the evidence files
cd "$(dirname "$0")" || exit 2
tier=${1:-quick}
rc=0
for p in $(python3 -c "import json;print(' '.join(c['property_id'] for c in json.load(open('MANIFEST.json'))['checks']))"); do
  ./check $p --tier $tier | grep -E "^OK|^VIOLATION|^UNDECIDED|^KNOWN" | cut -c1-160 || rc=1
done
python3-vt - <<'PY'
import json,jsonschema
m=json.load(open('/verif/MANIFEST.json'))
jsonschema.validate(m, json.load(open('/root/.vp/MANIFEST.schema.json')))
for c in m['checks']:
    e=json.load(open(c['evidence_file']))
    jsonschema.validate(e, json.load(open('/root/.vp/EVIDENCE.schema.json')))
    assert e['violations']==0 and not e['coverage']['undecided'], c['property_id']
print('manifest + evidence valid for', [c['property_id'] for c in m['checks']])
PY
