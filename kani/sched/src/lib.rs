// Kani unit "sched": Task / Time and their Ord impls cut verbatim from the repository, exercised
// on the REAL std BinaryHeap (validation of the trusted heap model of the Verus unit `scheduler`),
// plus the full-domain check of the `f64 as u64` truncation used by schedule_at / the trampoline.
#![allow(dead_code, unused_imports, unused_variables, unused_mut)]
use std::cmp::Reverse;
use std::collections::BinaryHeap;

//@KCUT crates/lib/mimium-lang/src/runtime.rs :: struct Time
type ClosureHandle = u64;
//@KCUT crates/lib/plugins/mimium-scheduler/src/scheduler.rs :: struct Task
//@KCUT crates/lib/plugins/mimium-scheduler/src/scheduler.rs :: impl Task
//@KCUT crates/lib/plugins/mimium-scheduler/src/scheduler.rs :: impl PartialOrd for Task
//@KCUT crates/lib/plugins/mimium-scheduler/src/scheduler.rs :: impl Ord for Task

#[cfg(kani)]
mod proofs {
    use super::*;

    /// `x as u64` is floor(x) for 0 <= x < 2^64, 0 for negative / NaN, saturating above: every f64.
    #[kani::proof]
    fn f64_to_u64_cast_truncates() {
        let bits: u64 = kani::any();
        let x = f64::from_bits(bits);
        let u = x as u64;
        if x.is_nan() || x <= 0.0 {
            assert!(u == 0);
        } else if x >= 18446744073709551616.0 {
            assert!(u == u64::MAX);
        } else if x < 9007199254740992.0 {
            // below 2^53 the conversion back is exact
            assert!((u as f64) <= x && x < (u as f64) + 1.0);
        } else {
            // from 2^53 on every f64 is an integer
            assert!((u as f64) == x);
        }
    }

    /// Task::cmp is a total preorder by `when` only; partial_cmp agrees (full domain, loop-free)
    #[kani::proof]
    fn task_cmp_by_when_only() {
        let a = Task::new(Time(kani::any()), kani::any());
        let b = Task::new(Time(kani::any()), kani::any());
        assert!(a.cmp(&b) == a.when.0.cmp(&b.when.0));
        assert!(a.partial_cmp(&b) == Some(a.cmp(&b)));
    }

    /// trusted heap model vs the real BinaryHeap<Reverse<Task>>: peek shows a task with minimal
    /// `when`; pop removes exactly the element peek showed; the others stay (3 symbolic tasks)
    #[kani::proof]
    #[kani::unwind(5)]
    fn binaryheap_model_validation() {
        let t: [Task; 3] = [
            Task::new(Time(kani::any()), 1),
            Task::new(Time(kani::any()), 2),
            Task::new(Time(kani::any()), 3),
        ];
        let mut h: BinaryHeap<Reverse<Task>> = BinaryHeap::new();
        h.push(Reverse(t[0]));
        h.push(Reverse(t[1]));
        h.push(Reverse(t[2]));
        let top = h.peek().unwrap().0;
        assert!(top.when <= t[0].when && top.when <= t[1].when && top.when <= t[2].when);
        let popped = h.pop().unwrap().0;
        assert!(popped.closure == top.closure && popped.when == top.when);
        assert!(h.len() == 2);
        let a = h.pop().unwrap().0;
        let b = h.pop().unwrap().0;
        assert!(h.pop().is_none());
        assert!(popped.when <= a.when && a.when <= b.when);
        // multiset preserved: the three closures are exactly 1, 2, 3
        assert!(popped.closure + a.closure + b.closure == 6 && popped.closure != a.closure && a.closure != b.closure && popped.closure != b.closure);
        std::mem::forget(h);
    }
}
