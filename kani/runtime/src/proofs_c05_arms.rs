// Harnesses for property C05: the VM instruction arms GetState / SetState / PushStatePos / PopStatePos / Delay / Mem
// (cut verbatim from Machine::execute by rule X4) compose the contracted primitives correctly: each arm touches
// exactly its destination register(s) on the stack and exactly the cell at the state cursor, and the Mem / Delay
// arms leave the same flat state words and return bit-equal results as the WASM host functions.
use super::*;                                   // vm_arms: Machine, FuncProto, Reg, TypeSize (+ vm::* re-exported there)
use super::super::StateStorage as WasmStorage;  // wasm.rs StateStorage
use super::super::{state_delay_host, state_mem_host};

fn resize_never<T: Clone, A: std::alloc::Allocator>(v: &mut Vec<T, A>, n: usize, x: T) {
    panic!("stack / storage growth reached inside a frame-sized stack and a layout-sized storage")
}

/// number of state words and of stack words of the symbolic machine (the only bound of these harnesses)
const N: usize = @RING_N@;

fn machine(words: [u64; N], pos: usize, stack: [u64; N], bp: u64, delay_size: u64) -> Machine {
    let mut st = StateStorage::default();
    st.rawdata = words.to_vec();
    st.pos = pos;
    Machine { stack: stack.to_vec(), base_pointer: bp, global_states: st, delaysizes_pos_stack: vec![0],
              fnproto: FuncProto { delay_sizes: vec![delay_size] } }
}

/// Mem arm: dst := old word at the cursor, word at the cursor := src; nothing else changes; == WASM state_mem_host
#[kani::proof]
#[kani::unwind(3)]
#[kani::stub(std::vec::Vec::resize, resize_never)]
fn vm_arm_mem_equals_wasm() {
    let words: [u64; N] = kani::any();
    let stack: [u64; N] = kani::any();
    let pos: usize = kani::any();
    let bp: u64 = kani::any();
    let dst: Reg = kani::any();
    let src: Reg = kani::any();
    kani::assume(pos < N && (bp as usize) < N && bp as usize + (dst as usize) < N && bp as usize + (src as usize) < N);
    let mut m = machine(words, pos, stack, bp, 0);
    m.arm_mem(dst, src);
    let s = stack[bp as usize + src as usize];
    // WASM host on the same words
    let mut ws = WasmStorage::default();
    ws.data = words.to_vec();
    ws.pos = pos;
    let w_old = state_mem_host(&mut ws, f64::from_bits(s));
    assert!(m.stack.len() == N && m.global_states.rawdata.len() == N && m.global_states.pos == pos && m.base_pointer == bp);
    let j: usize = kani::any();
    kani::assume(j < N);
    assert!(m.global_states.rawdata[j] == if j == pos { s } else { words[j] });
    assert!(m.global_states.rawdata[j] == ws.data[j]);
    assert!(m.stack[j] == if j == bp as usize + dst as usize { words[pos] } else { stack[j] });
    assert!(w_old.to_bits() == words[pos]);
    kani::cover!(dst != src && pos > 0 && bp > 0);
}

/// GetState arm: copies exactly `size` words from the cursor to the registers dst.., state untouched
#[kani::proof]
#[kani::unwind(@RING_N1@)]
#[kani::stub(std::vec::Vec::resize, resize_never)]
fn vm_arm_get_state() {
    let words: [u64; N] = kani::any();
    let stack: [u64; N] = kani::any();
    let pos: usize = kani::any();
    let bp: u64 = kani::any();
    let dst: Reg = kani::any();
    let size: TypeSize = kani::any();
    kani::assume(pos <= N && (size as usize) <= N - pos);
    kani::assume((bp as usize) < N && bp as usize + dst as usize + size as usize <= N);
    let mut m = machine(words, pos, stack, bp, 0);
    m.arm_get_state(dst, size);
    assert!(m.stack.len() == N && m.global_states.pos == pos);
    let j: usize = kani::any();
    kani::assume(j < N);
    assert!(m.global_states.rawdata[j] == words[j]);
    let lo = bp as usize + dst as usize;
    assert!(m.stack[j] == if j >= lo && j < lo + size as usize { words[pos + (j - lo)] } else { stack[j] });
    kani::cover!(size > 1 && pos > 0 && bp > 0);
}

/// SetState arm: copies exactly `size` words from the registers src.. to the cell at the cursor, stack untouched
#[kani::proof]
#[kani::unwind(@RING_N1@)]
#[kani::stub(std::vec::Vec::resize, resize_never)]
fn vm_arm_set_state() {
    let words: [u64; N] = kani::any();
    let stack: [u64; N] = kani::any();
    let pos: usize = kani::any();
    let bp: u64 = kani::any();
    let src: Reg = kani::any();
    let size: TypeSize = kani::any();
    kani::assume(pos <= N && (size as usize) <= N - pos);
    kani::assume((bp as usize) < N && bp as usize + src as usize + size as usize <= N);
    let mut m = machine(words, pos, stack, bp, 0);
    m.arm_set_state(src, size);
    assert!(m.stack.len() == N && m.global_states.pos == pos && m.global_states.rawdata.len() == N);
    let j: usize = kani::any();
    kani::assume(j < N);
    assert!(m.stack[j] == stack[j]);
    let lo = bp as usize + src as usize;
    assert!(m.global_states.rawdata[j] == if j >= pos && j < pos + size as usize { stack[lo + (j - pos)] } else { words[j] });
    kani::cover!(size > 1 && pos > 0 && bp > 0);
}

/// PushStatePos / PopStatePos arms: move only the cursor, by exactly the operand (full domain of offsets)
#[kani::proof]
fn vm_arm_push_pop_state_pos() {
    let pos: usize = kani::any();
    let o: u32 = kani::any();
    kani::assume(o < (1 << 24));
    kani::assume(pos <= usize::MAX - (1 << 24));
    let off = StateOffset::try_from(o).unwrap();
    let mut st = StateStorage::default();
    st.pos = pos;
    let mut m = Machine { stack: Vec::new(), base_pointer: 0, global_states: st, delaysizes_pos_stack: vec![0],
                          fnproto: FuncProto { delay_sizes: Vec::new() } };
    m.arm_push_state_pos(off);
    assert!(m.global_states.pos == pos + o as usize && m.global_states.rawdata.len() == 0 && m.stack.len() == 0);
    m.arm_pop_state_pos(off);
    assert!(m.global_states.pos == pos);
}

/// Delay arm: the arm takes the ring-buffer length from the entry of the function's delay-size table that the
/// INSTRUCTION names (finding F5, repaired: it used to be entry 0 for every delay of a function), and with that
/// length it returns in `dst` what the WASM host returns and leaves the same state words.
#[kani::proof]
#[kani::unwind(3)]
#[kani::stub(std::vec::Vec::resize, resize_never)]
fn vm_arm_delay_equals_wasm() {
    let words: [u64; N] = kani::any();
    let stack: [u64; N] = kani::any();
    let pos: usize = kani::any();
    let bp: u64 = kani::any();
    let dst: Reg = kani::any();
    let src: Reg = kani::any();
    let time: Reg = kani::any();
    // a two-entry delay-size table and a symbolic index into it
    let len0: u64 = kani::any();
    let len1: u64 = kani::any();
    let idx: u8 = kani::any();
    kani::assume(idx < 2);
    let len = if idx == 0 { len0 } else { len1 };
    kani::assume(len >= 1 && pos <= N && len <= N as u64 && pos + 2 + len as usize <= N);
    kani::assume((bp as usize) < N && bp as usize + (dst as usize) < N && bp as usize + (src as usize) < N && bp as usize + (time as usize) < N);
    let mut m = machine(words, pos, stack, bp, 0);
    m.fnproto = FuncProto { delay_sizes: vec![len0, len1] };
    m.arm_delay(dst, src, time, idx, 0);
    let i = stack[bp as usize + src as usize];
    let t = stack[bp as usize + time as usize];
    let mut ws = WasmStorage::default();
    ws.data = words.to_vec();
    ws.pos = pos;
    let w_res = state_delay_host(&mut ws, f64::from_bits(i), f64::from_bits(t), len as i64);
    assert!(m.stack.len() == N && m.global_states.pos == pos && m.global_states.rawdata.len() == N && ws.data.len() == N);
    let j: usize = kani::any();
    kani::assume(j < N);
    assert!(m.global_states.rawdata[j] == ws.data[j]);
    assert!(m.stack[j] == if j == bp as usize + dst as usize { w_res.to_bits() } else { stack[j] });
    kani::cover!(len > 2 && pos > 0 && bp > 0 && dst != src && idx == 1 && len0 != len1);
}
