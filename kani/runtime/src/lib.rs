// Kani unit "runtime": real files of /repo compiled unchanged (`#[path]`) plus items cut verbatim
// from vm.rs / wasm.rs (markers //@KCUT are replaced by `vx` on every run; //@KCUT_X1 additionally
// applies rule X1: the `Caller` parameter and the two plumbing statements that fetch the active
// StateStorage are replaced by a `current: &mut StateStorage` parameter).
#![feature(allocator_api)]
#![allow(dead_code, unused_imports, unused_variables, unused_mut, clippy::all)]

pub mod runtime {
    pub mod vm {
        use core::slice;
        pub type RawVal = u64;
        pub type StateOffset = intx::U24;

        #[path = "@REPO@/crates/lib/mimium-lang/src/runtime/vm/heap.rs"]
        pub mod heap;
        #[path = "@REPO@/crates/lib/mimium-lang/src/runtime/vm/ringbuffer.rs"]
        mod ringbuffer;
        use ringbuffer::Ringbuffer;

        //@KCUT crates/lib/mimium-lang/src/runtime/vm.rs :: struct StateStorage
        //@KCUT crates/lib/mimium-lang/src/runtime/vm.rs :: impl StateStorage

        pub mod wasm_rt {
            type Word = u64;
            //@KCUT crates/lib/mimium-lang/src/runtime/wasm.rs :: const MAX_WASM_DELAY_SAMPLES
            //@KCUT crates/lib/mimium-lang/src/runtime/wasm.rs :: struct StateStorage
            //@KCUT crates/lib/mimium-lang/src/runtime/wasm.rs :: impl StateStorage
            //@KCUT_X1 crates/lib/mimium-lang/src/runtime/wasm.rs :: fn state_push_host
            //@KCUT_X1 crates/lib/mimium-lang/src/runtime/wasm.rs :: fn state_pop_host
            //@KCUT_X1 crates/lib/mimium-lang/src/runtime/wasm.rs :: fn state_delay_host
            //@KCUT_X1 crates/lib/mimium-lang/src/runtime/wasm.rs :: fn state_mem_host

            /// The VM's state instruction arms (`Machine::execute`), each cut verbatim by rule X4 and re-headed as a
            /// method of a REDUCED `Machine` (only the fields the arms touch; `get_current_state` reduced to the
            /// global storage, i.e. no closure state is active; `get_fnproto(func_i).delay_sizes` reduced to a field).
            /// The stack accessors are cut verbatim.
            pub mod vm_arms {
                use super::super::*;
                use std::cmp::Ordering;
                use std::ops::Range;
                pub type Reg = u16;
                pub type TypeSize = u16;
                pub struct FuncProto { pub delay_sizes: Vec<u64> }
                pub struct Machine {
                    pub stack: Vec<RawVal>,
                    pub base_pointer: u64,
                    pub global_states: StateStorage,
                    pub delaysizes_pos_stack: Vec<usize>,
                    pub fnproto: FuncProto,
                }
                //@KCUT crates/lib/mimium-lang/src/runtime/vm.rs :: fn set_vec_range
                impl Machine {
                    // REDUCTION (hand-written): the active state storage is the global one
                    fn get_current_state(&mut self) -> &mut StateStorage { &mut self.global_states }
                    // REDUCTION (hand-written): one function prototype
                    fn get_fnproto(&self, _func_i: usize) -> &FuncProto { &self.fnproto }
                    //@KCUT crates/lib/mimium-lang/src/runtime/vm.rs :: method Machine::get_stack
                    //@KCUT crates/lib/mimium-lang/src/runtime/vm.rs :: method Machine::get_stack_range
                    //@KCUT crates/lib/mimium-lang/src/runtime/vm.rs :: method Machine::set_stack
                    //@KCUT crates/lib/mimium-lang/src/runtime/vm.rs :: method Machine::set_stack_range
                    //@KCUT crates/lib/mimium-lang/src/runtime/vm.rs :: method Machine::to_value
                    //@KCUT_ARM crates/lib/mimium-lang/src/runtime/vm.rs :: arm Instruction::GetState as arm_get_state(&mut self, dst: Reg, size: TypeSize) in method Machine::execute
                    //@KCUT_ARM crates/lib/mimium-lang/src/runtime/vm.rs :: arm Instruction::SetState as arm_set_state(&mut self, src: Reg, size: TypeSize) in method Machine::execute
                    //@KCUT_ARM crates/lib/mimium-lang/src/runtime/vm.rs :: arm Instruction::PushStatePos as arm_push_state_pos(&mut self, v: StateOffset) in method Machine::execute
                    //@KCUT_ARM crates/lib/mimium-lang/src/runtime/vm.rs :: arm Instruction::PopStatePos as arm_pop_state_pos(&mut self, v: StateOffset) in method Machine::execute
                    //@KCUT_ARM crates/lib/mimium-lang/src/runtime/vm.rs :: arm Instruction::Delay as arm_delay(&mut self, dst: Reg, src: Reg, time: Reg, delay_idx: u8, func_i: usize) in method Machine::execute
                    //@KCUT_ARM crates/lib/mimium-lang/src/runtime/vm.rs :: arm Instruction::Mem as arm_mem(&mut self, dst: Reg, src: Reg) in method Machine::execute
                }
                #[cfg(kani)]
                mod proofs_arms {
                    include!("proofs_c05_arms.rs");
                }
            }

            #[cfg(kani)]
            mod proofs_c05 {
                include!("proofs_c05.rs");
            }
        }

        #[cfg(kani)]
        mod proofs_c12 {
            include!("proofs_c12.rs");
        }
    }
}
