// Kani unit "runtime": real files of /repo compiled unchanged (`#[path]`) plus items cut verbatim
// from vm.rs / wasm.rs (markers //@KCUT are replaced by `vx` on every run; //@KCUT_X1 additionally
// applies rule X1: the `Caller` parameter and the two plumbing statements that fetch the active
// StateStorage are replaced by a `current: &mut StateStorage` parameter).
#![feature(allocator_api)]
#![allow(dead_code, unused_imports, unused_variables, unused_mut, clippy::all)]

pub mod runtime {
    pub mod vm {
        use core::slice;
        pub type RawVal = u64;
        pub type StateOffset = intx::U24;

        #[path = "@REPO@/crates/lib/mimium-lang/src/runtime/vm/heap.rs"]
        pub mod heap;
        #[path = "@REPO@/crates/lib/mimium-lang/src/runtime/vm/ringbuffer.rs"]
        mod ringbuffer;
        use ringbuffer::Ringbuffer;

        //@KCUT crates/lib/mimium-lang/src/runtime/vm.rs :: struct StateStorage
        //@KCUT crates/lib/mimium-lang/src/runtime/vm.rs :: impl StateStorage

        pub mod wasm_rt {
            type Word = u64;
            //@KCUT crates/lib/mimium-lang/src/runtime/wasm.rs :: const MAX_WASM_DELAY_SAMPLES
            //@KCUT crates/lib/mimium-lang/src/runtime/wasm.rs :: struct StateStorage
            //@KCUT crates/lib/mimium-lang/src/runtime/wasm.rs :: impl StateStorage
            //@KCUT_X1 crates/lib/mimium-lang/src/runtime/wasm.rs :: fn state_push_host
            //@KCUT_X1 crates/lib/mimium-lang/src/runtime/wasm.rs :: fn state_pop_host
            //@KCUT_X1 crates/lib/mimium-lang/src/runtime/wasm.rs :: fn state_delay_host
            //@KCUT_X1 crates/lib/mimium-lang/src/runtime/wasm.rs :: fn state_mem_host

            #[cfg(kani)]
            mod proofs_c05 {
                include!("proofs_c05.rs");
            }
        }

        #[cfg(kani)]
        mod proofs_c12 {
            include!("proofs_c12.rs");
        }
    }
}
