// Harnesses for property C12 (heap-object clause): the real heap.rs on the real slotmap.
// Population of the slot map is bounded (2 objects); reference counts and the choice of handle
// are fully symbolic.  They also validate the trusted SlotMap model used by the Verus unit `heap`.
use super::heap::*;

fn two_objects(rc_a: u64, rc_b: u64) -> (HeapStorage, HeapIdx, HeapIdx) {
    let mut st = HeapStorage::default();
    let a = st.insert(HeapObject::new(1));
    let b = st.insert(HeapObject::new(2));
    st.get_mut(a).unwrap().refcount = rc_a;
    st.get_mut(b).unwrap().refcount = rc_b;
    (st, a, b)
}

#[kani::proof]
#[kani::unwind(6)]
fn heap_retain_contract() {
    let rc: u64 = kani::any();
    let rcb: u64 = kani::any();
    kani::assume(rc >= 1 && rc < u64::MAX && rcb >= 1);
    let (mut st, a, b) = two_objects(rc, rcb);
    heap_retain(&mut st, a);
    assert!(st.get(a).unwrap().refcount == rc + 1);
    assert!(st.get(a).unwrap().size == 1 && st.get(a).unwrap().data.len() == 1);
    // frame
    assert!(st.get(b).unwrap().refcount == rcb && st.get(b).unwrap().size == 2);
    assert!(st.len() == 2);
    std::mem::forget(st);
}

#[kani::proof]
#[kani::unwind(6)]
fn heap_release_contract() {
    let rc: u64 = kani::any();
    let rcb: u64 = kani::any();
    kani::assume(rc >= 1 && rcb >= 1);
    let closure_variant: bool = kani::any();
    let (mut st, a, b) = two_objects(rc, rcb);
    if closure_variant { heap_release_closure(&mut st, a) } else { heap_release(&mut st, a) }
    if rc == 1 {
        // last reference: removed, handle no longer resolves
        assert!(st.get(a).is_none() && !st.contains_key(a) && st.len() == 1);
    } else {
        assert!(st.get(a).unwrap().refcount == rc - 1 && st.len() == 2);
    }
    assert!(st.get(b).unwrap().refcount == rcb);
    std::mem::forget(st);
}

/// dangling handle: retain / release have no effect and do not underflow; a re-used slot gets a
/// different key, so the stale handle can never reach the new object (no use after release)
#[kani::proof]
#[kani::unwind(6)]
fn heap_dangling_handle_is_inert() {
    let rcb: u64 = kani::any();
    kani::assume(rcb >= 1);
    let (mut st, a, b) = two_objects(1, rcb);
    heap_release(&mut st, a);
    assert!(st.get(a).is_none());
    let c = st.insert(HeapObject::new(3));
    assert!(c != a && st.get(a).is_none() && st.get(c).unwrap().size == 3);
    let which: u8 = kani::any();
    match which % 3 {
        0 => heap_retain(&mut st, a),
        1 => heap_release(&mut st, a),
        _ => heap_release_closure(&mut st, a),
    }
    assert!(st.get(a).is_none());
    assert!(st.get(c).unwrap().refcount == 1 && st.get(b).unwrap().refcount == rcb && st.len() == 2);
    std::mem::forget(st);
}

/// the storage becomes EMPTY in between: a handle released earlier must stay dead when new objects are
/// allocated afterwards (slot versions must survive an empty storage)
#[kani::proof]
#[kani::unwind(6)]
fn heap_stale_handle_after_empty() {
    let mut st = HeapStorage::default();
    let a = st.insert(HeapObject::new(1));
    let closure_variant: bool = kani::any();
    if closure_variant { heap_release_closure(&mut st, a) } else { heap_release(&mut st, a) }
    assert!(st.get(a).is_none() && st.len() == 0);
    let c = st.insert(HeapObject::new(3));
    assert!(c != a && st.get(a).is_none());
    let which: u8 = kani::any();
    match which % 3 {
        0 => heap_retain(&mut st, a),
        1 => heap_release(&mut st, a),
        _ => heap_release_closure(&mut st, a),
    }
    assert!(st.get(c).is_some() && st.get(c).unwrap().refcount == 1 && st.get(c).unwrap().size == 3 && st.len() == 1);
    std::mem::forget(st);
}

/// validation of the trusted SlotMap model (get_mut / remove / key freshness) on the real crate
#[kani::proof]
#[kani::unwind(6)]
fn slotmap_model_validation() {
    let mut st = HeapStorage::default();
    let a = st.insert(HeapObject::new(1));
    let b = st.insert(HeapObject::new(1));
    assert!(a != b);
    let v: u64 = kani::any();
    st.get_mut(a).unwrap().refcount = v;
    assert!(st.get(a).unwrap().refcount == v && st.get(b).unwrap().refcount == 1);
    let r = st.remove(a);
    assert!(r.is_some() && st.get_mut(a).is_none() && st.remove(a).is_none());
    assert!(st.get(b).unwrap().refcount == 1);
    std::mem::forget(st);
}
