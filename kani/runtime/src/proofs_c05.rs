// Harnesses for property C05 (run-time half).  Module position: runtime::vm::wasm_rt::proofs_c05,
// so the private `StateStorage` of vm.rs (VmStorage) and of wasm.rs (WasmStorage) are both visible.
use super::super::StateStorage as VmStorage;
use super::super::StateOffset;
use super::StateStorage as WasmStorage;
use super::{state_delay_host, state_mem_host, state_pop_host, state_push_host, MAX_WASM_DELAY_SAMPLES};

/// The WASM host grows its storage lazily (`data.resize`); inside a storage sized from the layout
/// this never happens.  The stub turns "growth reached" into a failed check and removes the
/// (expensive) reallocation model from the formula.
fn resize_never<T: Clone, A: std::alloc::Allocator>(v: &mut Vec<T, A>, n: usize, x: T) {
    panic!("storage growth reached inside a layout-sized storage")
}

/// number of state words of the symbolic storage (the only bound of these harnesses)
const N: usize = @RING_N@;

fn vm_storage(words: [u64; N], pos: usize) -> VmStorage {
    let mut st = VmStorage::default();
    st.rawdata = words.to_vec();
    st.pos = pos;
    st
}
fn wasm_storage(words: [u64; N], pos: usize) -> WasmStorage {
    let mut st = WasmStorage::default();
    st.data = words.to_vec();
    st.pos = pos;
    st
}
/// exact IEEE meaning of `t.clamp(0, len-1) as u64` (the delay in whole samples)
fn delay_samples_spec(time_bits: u64, len: u64) -> u64 {
    let t = f64::from_bits(time_bits);
    if t.is_nan() {
        0
    } else if t <= 0.0 {
        0
    } else if t >= (len - 1) as f64 {
        len - 1
    } else {
        t as u64
    }
}

/// VM GetState: the returned window is exactly rawdata[pos .. pos+size], in bounds (CBMC pointer checks)
#[kani::proof]
fn vm_get_state_window() {
    let words: [u64; N] = kani::any();
    let pos: usize = kani::any();
    let size: u64 = kani::any();
    kani::assume(pos <= N && size <= (N - pos) as u64);
    let st = vm_storage(words, pos);
    let s = st.get_state(size);
    assert!(s.len() == size as usize);
    let k: usize = kani::any();
    kani::assume(k < size as usize);
    assert!(s[k] == words[pos + k]);
    kani::cover!(size > 1 && pos > 0);
}

/// VM SetState / Mem: a write through get_state_mut touches exactly the addressed word (frame)
#[kani::proof]
fn vm_get_state_mut_frame() {
    let words: [u64; N] = kani::any();
    let pos: usize = kani::any();
    let size: usize = kani::any();
    kani::assume(pos <= N && size <= N - pos);
    let mut st = vm_storage(words, pos);
    let k: usize = kani::any();
    kani::assume(k < size);
    let v: u64 = kani::any();
    {
        let w = st.get_state_mut(size);
        assert!(w.len() == size);
        w[k] = v;
    }
    let j: usize = kani::any();
    kani::assume(j < N);
    assert!(st.rawdata.len() == N);
    assert!(st.rawdata[j] == if j == pos + k { v } else { words[j] });
    assert!(st.pos == pos);
}

/// VM PushStatePos / PopStatePos: exact cursor arithmetic, inverse of each other, no wrap.
/// Full domain (every 24-bit offset, every cursor that cannot overflow): loop-free => complete.
#[kani::proof]
fn vm_push_pop_inverse() {
    let mut st = VmStorage::default();
    let pos: usize = kani::any();
    let o: u32 = kani::any();
    kani::assume(o < (1 << 24));
    kani::assume(pos <= usize::MAX - (1 << 24));
    st.pos = pos;
    let off = StateOffset::try_from(o).unwrap();
    st.push_pos(off);
    assert!(st.pos == pos + o as usize);
    st.pop_pos(off);
    assert!(st.pos == pos);
    assert!(st.rawdata.len() == 0);
}

/// VM Delay: one call of the ring buffer at the cursor obeys the one-step functional
/// specification and touches only the cell's own 2+len words.
#[kani::proof]
fn vm_delay_one_step_spec() {
    let words: [u64; N] = kani::any();
    let pos: usize = kani::any();
    let len: u64 = kani::any();
    kani::assume(pos <= N && len <= N as u64 && pos + 2 + len as usize <= N);
    let input: u64 = kani::any();
    let time: u64 = kani::any();
    let mut st = vm_storage(words, pos);
    let res = {
        let mut rb = st.get_as_ringbuffer(len);
        rb.process(input, time)
    };
    let j: usize = kani::any();
    kani::assume(j < N);
    if len == 0 {
        assert!(res == 0);
        assert!(st.rawdata[j] == words[j]);
    } else {
        let w = words[pos + 1] % len;
        let d = delay_samples_spec(time, len);
        let r = (w + len - d) % len;
        assert!(res == words[pos + 2 + r as usize]);
        let expect = if j == pos {
            r
        } else if j == pos + 1 {
            (w + 1) % len
        } else if j == pos + 2 + w as usize {
            input
        } else {
            words[j]
        };
        assert!(st.rawdata[j] == expect);
    }
    assert!(st.pos == pos);
    kani::cover!(len > 2 && pos > 0);
}

/// Last sentence of C05 at primitive level: for equal flat words, cursor and arguments the WASM
/// host `delay` and the VM ring buffer return bit-identical results and leave identical words.
#[kani::proof]
#[kani::unwind(3)]
#[kani::stub(std::vec::Vec::resize, resize_never)]
fn wasm_delay_equals_vm() {
    let words: [u64; N] = kani::any();
    let pos: usize = kani::any();
    let len: u64 = kani::any();
    kani::assume(len >= 1 && pos <= N && len <= N as u64 && pos + 2 + len as usize <= N);
    let input: u64 = kani::any();
    let time: u64 = kani::any();
    let mut vm = vm_storage(words, pos);
    let vm_res = {
        let mut rb = vm.get_as_ringbuffer(len);
        rb.process(input, time)
    };
    let mut ws = wasm_storage(words, pos);
    let w_res = state_delay_host(&mut ws, f64::from_bits(input), f64::from_bits(time), len as i64);
    assert!(w_res.to_bits() == vm_res);
    assert!(ws.data.len() == N && ws.pos == pos);
    let j: usize = kani::any();
    kani::assume(j < N);
    assert!(ws.data[j] == vm.rawdata[j]);
}

/// documented difference: the WASM host refuses non-positive / oversized delay lengths
#[kani::proof]
#[kani::unwind(3)]
#[kani::stub(std::vec::Vec::resize, resize_never)]
fn wasm_delay_refuses_bad_length() {
    let words: [u64; N] = kani::any();
    let pos: usize = kani::any();
    kani::assume(pos <= N);
    let max_len: i64 = kani::any();
    kani::assume(max_len <= 0 || max_len as u64 > MAX_WASM_DELAY_SAMPLES as u64);
    let mut ws = wasm_storage(words, pos);
    let r = state_delay_host(&mut ws, kani::any(), kani::any(), max_len);
    assert!(r.to_bits() == 0);
    assert!(ws.data.len() == N && ws.pos == pos);
    let j: usize = kani::any();
    kani::assume(j < N);
    assert!(ws.data[j] == words[j]);
}

/// `mem` cell: WASM host == VM instruction arm (read old word, store new word at the cursor)
#[kani::proof]
#[kani::unwind(3)]
#[kani::stub(std::vec::Vec::resize, resize_never)]
fn wasm_mem_equals_vm() {
    let words: [u64; N] = kani::any();
    let pos: usize = kani::any();
    kani::assume(pos < N);
    let s: u64 = kani::any();
    // VM arm `Instruction::Mem`: v = get_state_mut(1)[0]; get_state_mut(1)[0] = s
    let mut vm = vm_storage(words, pos);
    let vm_old = vm.get_state_mut(1)[0];
    vm.get_state_mut(1)[0] = s;
    let mut ws = wasm_storage(words, pos);
    let w_old = state_mem_host(&mut ws, f64::from_bits(s));
    assert!(w_old.to_bits() == vm_old && vm_old == words[pos]);
    assert!(ws.data.len() == N && ws.pos == pos);
    let j: usize = kani::any();
    kani::assume(j < N);
    assert!(ws.data[j] == vm.rawdata[j]);
    assert!(ws.data[j] == if j == pos { s } else { words[j] });
}

/// cursor moves: WASM host push/pop == VM push_pos/pop_pos for every 24-bit offset (full domain)
#[kani::proof]
fn wasm_push_pop_equals_vm() {
    let pos: usize = kani::any();
    let o: u32 = kani::any();
    kani::assume(o < (1 << 24));
    kani::assume(pos <= usize::MAX - (1 << 24));
    let off = StateOffset::try_from(o).unwrap();
    let mut vm = VmStorage::default();
    vm.pos = pos;
    let mut ws = WasmStorage::default();
    ws.pos = pos;
    vm.push_pos(off);
    state_push_host(&mut ws, o as i64);
    assert!(ws.pos == vm.pos && ws.pos == pos + o as usize);
    vm.pop_pos(off);
    state_pop_host(&mut ws, o as i64);
    assert!(ws.pos == vm.pos && ws.pos == pos);
}

/// Range fact used by the Verus unit `wasm_state` for the expression it leaves uninterpreted
/// (`let max_delay = (len - 1) as f64; let delay_samples = time.clamp(0.0, max_delay) as u64;` in state_delay_host):
/// for EVERY f64 bit pattern and every admissible length the delay in samples is at most len - 1.
/// Loop-free, full domain => complete.
#[kani::proof]
fn delay_samples_in_range() {
    let time = f64::from_bits(kani::any());
    let len: u64 = kani::any();
    kani::assume(len >= 1 && len <= MAX_WASM_DELAY_SAMPLES as u64);
    let max_delay = (len - 1) as f64;
    let delay_samples = time.clamp(0.0, max_delay) as u64;
    assert!(delay_samples <= len - 1);
    assert!(delay_samples == delay_samples_spec(time.to_bits(), len));
    kani::cover!(delay_samples > 0 && delay_samples < len - 1);
}
