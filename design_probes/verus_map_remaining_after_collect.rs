use vstd::prelude::*;
use vstd::std_specs::iter::{IteratorSpec, map_postcondition, map_iter, map_fun};
verus! {
fn f(a: &Vec<u64>)
{
    let it0 = a.iter();
    let it = it0.map(|x: &u64| -> (y: u64) ensures y == *x { *x });
    proof { map_postcondition(map_iter(it), map_fun(it), it); }
    assert(it.remaining().len() == it0.remaining().len());   // C1
}
fn g(a: &Vec<u64>)
{
    let it0 = a.iter();
    let it = it0.map(|x: &u64| -> (y: u64) ensures y == *x { *x });
    let v: Vec<u64> = it.collect();
    assert(v.len() == a.len()); // E
    assert(v@ == it.remaining()); // F
}
}
fn main(){}
