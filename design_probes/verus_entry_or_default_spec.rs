use vstd::prelude::*;
use std::collections::HashMap;
use std::collections::hash_map::Entry;
verus! {

pub assume_specification<'a, K, V: Default>[ Entry::<'a, K, V>::or_default ](e: Entry<'a, K, V>) -> (r: &'a mut V);

fn g(m: &mut HashMap<usize, Vec<usize>>, k: usize, p: &mut Vec<usize>)
{
    let e = m.entry(k);
    let v = e.or_default();
    v.append(p);
}
}
fn main(){}
