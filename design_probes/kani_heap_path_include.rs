pub mod runtime { pub mod vm {
    pub type RawVal = u64;
    #[path = "/repo/crates/lib/mimium-lang/src/runtime/vm/heap.rs"]
    pub mod heap;
    #[cfg(kani)]
    mod proofs {
        use super::heap::*;
        #[kani::proof]
        #[kani::unwind(6)]
        fn retain_release() {
            let mut st = HeapStorage::default();
            let a = st.insert(HeapObject::new(1));
            let b = st.insert(HeapObject::new(1));
            let rc: u64 = kani::any();
            kani::assume(rc >= 1 && rc < u64::MAX);
            st.get_mut(a).unwrap().refcount = rc;
            heap_retain(&mut st, a);
            assert!(st.get(a).unwrap().refcount == rc + 1);
            heap_release(&mut st, a);
            heap_release(&mut st, a);
            if rc == 1 { assert!(st.get(a).is_none()); } else { assert!(st.get(a).unwrap().refcount == rc - 1); }
            assert!(st.get(b).unwrap().refcount == 1);
            std::mem::forget(st);
        }
    }
}}
