use vstd::prelude::*;
use std::collections::HashSet;
verus! {
pub uninterp spec fn spec_usize_to_f64(x: usize) -> f64;
#[verifier::external_body]
pub fn usize_to_f64(x: usize) -> (r: f64) ensures r == spec_usize_to_f64(x) { x as f64 }
pub const DELAY_ADDITIONAL_OFFSET: usize = 2;
pub fn lcs_by_score<T>(old: &[T], new: &[T], mut score_fn: impl FnMut(&T, &T) -> f64) -> Vec<DiffResult> { Vec::new() }
pub trait SizedType {
    fn word_size(&self) -> u64;
}

impl SizedType for u64 {
    fn word_size(&self) -> u64 {
        *self
    }
}

impl SizedType for usize {
    fn word_size(&self) -> u64 {
        *self as u64
    }
}

/// This data represents just a memory layout on a flat array, do not own actual data.
pub enum StateTreeSkeleton<T: SizedType> {
    Delay {
        len: u64, //assume we are using only mono f64 data
    },
    Mem(T),
    Feed(T),
    FnCall(Vec<Box<StateTreeSkeleton<T>>>),
}
impl<T: SizedType> StateTreeSkeleton<T> {
    pub fn total_size(&self) -> u64 {
        match self {
            StateTreeSkeleton::Delay { len } => DELAY_ADDITIONAL_OFFSET as u64 + *len,
            StateTreeSkeleton::Mem(t) | StateTreeSkeleton::Feed(t) => t.word_size(),
            StateTreeSkeleton::FnCall(children_layout) => children_layout
                .iter()
                .map(|child_layout| child_layout.total_size())
                .sum(),
        }
    }

    /// Convert a path (position in the tree) to an address (offset) in a flat array.
    ///
    /// # Arguments
    /// * `path` - Path in the tree. Empty means root, [0] is the first child, [0, 1] is the second child of the first child.
    ///
    /// # Returns
    /// Returns the start address of the node pointed to by the path and the size of that node.
    /// Returns None if the path is invalid.
    pub fn path_to_address(&self, path: &[usize]) -> Option<(usize, usize)> {
        if path.is_empty() {
            // Root node case
            return Some((0, self.total_size() as usize));
        }

        match self {
            StateTreeSkeleton::FnCall(children) => {
                let child_idx = path[0];
                if child_idx >= children.len() {
                    return None;
                }

                // Calculate offset to the child node
                let offset: u64 = children
                    .iter()
                    .take(child_idx)
                    .map(|child| child.total_size())
                    .sum();

                // Recursively resolve the path within the child node
                let (child_offset, size) = children[child_idx].path_to_address(&path[1..])?;
                Some((offset as usize + child_offset, size))
            }
            // Error if path remains on a leaf node
            _ => None,
        }
    }
}
impl<T: SizedType> PartialEq for StateTreeSkeleton<T> {
    fn eq(&self, other: &Self) -> bool {
        match (self, other) {
            (Self::Delay { len: l_len }, Self::Delay { len: r_len }) => l_len == r_len,
            (Self::Mem(l0), Self::Mem(r0)) => l0.word_size() == r0.word_size(),
            (Self::Feed(l0), Self::Feed(r0)) => l0.word_size() == r0.word_size(),
            (Self::FnCall(l0), Self::FnCall(r0)) => l0 == r0,
            _ => false,
        }
    }
}



pub fn take_diff<T: SizedType>(
    old_skeleton: &StateTreeSkeleton<T>,
    new_skeleton: &StateTreeSkeleton<T>,
) -> HashSet<CopyFromPatch> {
    build_patches_recursive(old_skeleton, new_skeleton, vec![], vec![])
}

/// Enum representing the result of LCS algorithm
#[derive(Debug)]
pub enum DiffResult {
    /// Element that exists in both sequences
    Common { old_index: usize, new_index: usize },
    /// Element that exists only in the old sequence (deleted)
    Delete { old_index: usize },
    /// Element that exists only in the new sequence (inserted)
    Insert { new_index: usize },
}

fn nodes_match<T: SizedType>(old: &StateTreeSkeleton<T>, new: &StateTreeSkeleton<T>) -> bool {
    match (old, new) {
        (StateTreeSkeleton::Delay { len: len1 }, StateTreeSkeleton::Delay { len: len2 }) => {
            len1 == len2
        }
        (StateTreeSkeleton::Mem(t1), StateTreeSkeleton::Mem(t2)) => {
            t1.word_size() == t2.word_size()
        }
        (StateTreeSkeleton::Feed(t1), StateTreeSkeleton::Feed(t2)) => {
            t1.word_size() == t2.word_size()
        }
        (StateTreeSkeleton::FnCall(c1), StateTreeSkeleton::FnCall(c2)) => {
            c1.len() == c2.len() && c1.iter().zip(c2.iter()).all(|p| { let (a, b) = p; nodes_match(a, b) })
        }
        _ => false,
    }
}

/// Retrieve a node from a Skeleton using a path
fn get_node_at_path<'a, T: SizedType>(
    skeleton: &'a StateTreeSkeleton<T>,
    path: &[usize],
) -> Option<&'a StateTreeSkeleton<T>> {
    if path.is_empty() {
        return Some(skeleton);
    }

    match skeleton {
        StateTreeSkeleton::FnCall(children) => {
            let child = children.get(path[0])?;
            get_node_at_path(child, &path[1..])
        }
        _ => None,
    }
}

fn build_patches_recursive<T: SizedType>(
    old_skeleton: &StateTreeSkeleton<T>,
    new_skeleton: &StateTreeSkeleton<T>,
    old_path: Vec<usize>,
    new_path: Vec<usize>,
) -> HashSet<CopyFromPatch> {
    // Retrieve the current node from the path
    let old_node = get_node_at_path(old_skeleton, &old_path).expect("Invalid old_path");
    let new_node = get_node_at_path(new_skeleton, &new_path).expect("Invalid new_path");

    // If the nodes are completely matched, return a single patch
    if nodes_match(old_node, new_node) {
        // Convert path to address
        let (src_addr, size) = old_skeleton
            .path_to_address(&old_path)
            .expect("Invalid old_path");
        let (dst_addr, dst_size) = new_skeleton
            .path_to_address(&new_path)
            .expect("Invalid new_path");

        debug_assert_eq!(
            size, dst_size,
            "Size mismatch between matched nodes at old_path {old_path:?} and new_path {new_path:?}"
        );

        return [CopyFromPatch {
            src_addr,
            dst_addr,
            size,
        }]
        .into_iter()
        .collect();
    }

    match (old_node, new_node) {
        (StateTreeSkeleton::FnCall(old_children), StateTreeSkeleton::FnCall(new_children)) => {
            // First, calculate patches for all child nodes (to avoid side effects in score calculation)
            let mut child_patches_map = Vec::new();
            for old_idx in 0..old_children.len() {
                for new_idx in 0..new_children.len() {
                    let child_old_path = [old_path.clone(), vec![old_idx]].concat();
                    let child_new_path = [new_path.clone(), vec![new_idx]].concat();
                    let patches = build_patches_recursive(
                        old_skeleton,
                        new_skeleton,
                        child_old_path,
                        child_new_path,
                    );
                    let score = if patches.is_empty() {
                        0.0
                    } else {
                        usize_to_f64(patches.len())
                    };
                    child_patches_map.push(((old_idx, new_idx), patches, score));
                }
            }

            // Find matching using LCS
            let old_c_with_id: Vec<_> = old_children.iter().enumerate().collect();
            let new_c_with_id: Vec<_> = new_children.iter().enumerate().collect();

            let lcs_results = lcs_by_score(
                &old_c_with_id,
                &new_c_with_id,
                |p0, p1| { let (oid, _old) = p0; let (nid, _new) = p1;
                    child_patches_map
                        .iter()
                        .find(|q| { let ((o, n), _, _) = q; o == oid && n == nid })
                        .map(|q| { let (_, _, score) = q; *score })
                        .unwrap_or(0.0)
                },
            );

            // Collect patches based on LCS results
            let mut c_patches = HashSet::new();
            for result in &lcs_results {
                if let DiffResult::Common {
                    old_index,
                    new_index,
                } = result
                { if let Some((_, patches, _)) = child_patches_map
                        .iter()
                        .find(|q| { let ((o, n), _, _) = q; o == old_index && n == new_index })
                {
                    c_patches.extend(patches.iter().cloned());
                } }
            }

            c_patches
        }
        _ => HashSet::new(),
    }
}
/// A patch to be applied to a flat state storage from old storage.
///
/// A patch represents a flat array copy operation from the source data storage
/// to the destination data storage.
#[derive(Debug, PartialEq, Eq, Clone, Hash)]
pub struct CopyFromPatch {
    /// Starting address in the source data storage (index from the beginning of the array)
    pub src_addr: usize,
    /// Starting address in the destination data storage
    pub dst_addr: usize,
    /// Size of data to copy (in u64 units)
    pub size: usize,
}

/// Apply patches to a new flat array.
///
/// # Arguments
/// * `new_storage` - Destination flat array with the new structure (initialized with zeros)
/// * `old_storage` - Source flat array with the old structure
/// * `patches` - List of patches generated by the `diff` function
///
/// # Panics
/// May panic if the addresses or sizes in the patches are invalid.
/// (This should not happen if `diff` is correctly implemented)
pub fn apply_patches(new_storage: &mut [u64], old_storage: &[u64], patches: &[CopyFromPatch]) {
    for patch in patches {
        let src_end = patch.src_addr + patch.size;
        let dst_end = patch.dst_addr + patch.size;

        debug_assert!(
            src_end <= old_storage.len(),
            "Source address range [{}, {}) exceeds old storage size {}",
            patch.src_addr,
            src_end,
            old_storage.len()
        );
        debug_assert!(
            dst_end <= new_storage.len(),
            "Destination address range [{}, {}) exceeds new storage size {}",
            patch.dst_addr,
            dst_end,
            new_storage.len()
        );

        // Perform flat array copy
        new_storage[patch.dst_addr..dst_end].copy_from_slice(&old_storage[patch.src_addr..src_end]);
    }
}

}
fn main(){}
