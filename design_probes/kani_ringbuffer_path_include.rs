pub mod vm {
    pub type RawVal = u64;
    #[path = "/repo/crates/lib/mimium-lang/src/runtime/vm/ringbuffer.rs"]
    pub mod ringbuffer;

    #[cfg(kani)]
    mod proofs {
        use super::ringbuffer::Ringbuffer;
        #[kani::proof]
        fn ring_process_in_bounds() {
            const N: usize = 6; // words: 2 header + up to 4 data
            let mut buf: [u64; N] = kani::any();
            let len: u64 = kani::any();
            kani::assume(len <= (N as u64 - 2));
            let input: u64 = kani::any();
            let t: u64 = kani::any();
            let old = buf;
            let mut rb = Ringbuffer::new(buf.as_mut_ptr(), len);
            let res = rb.process(input, t);
            if len > 0 {
                let w = old[1] % len;
                assert!(buf[1] == (w + 1) % len);
                assert!(buf[2 + w as usize] == input);
                let tf = f64::from_bits(t);
                let d = if tf.is_nan() { 0 } else if tf <= 0.0 { 0 } else if tf >= (len - 1) as f64 { len - 1 } else { tf as u64 };
                let r = (w + len - d) % len;
                assert!(res == old[2 + r as usize]);
                assert!(buf[0] == r);
            } else {
                assert!(res == 0);
                assert!(buf == old);
            }
        }
    }
}
