use vstd::prelude::*;
verus! {
pub enum V { N(u64), A(Vec<V>), T(u64, Box<V>) }
pub enum F { N(u64), A(Vec<F>), T(u64, Box<F>) }

pub open spec fn ok(v: V, f: F) -> bool decreases v {
    match (v, f) {
        (V::N(n), F::N(m)) => n == m,
        (V::A(a), F::A(b)) => a@.len() == b@.len() && forall|i: int| 0 <= i < a@.len() ==> #[trigger] ok(a@[i], b@[i]),
        (V::T(t, x), F::T(u, y)) => t == u && ok(*x, *y),
        _ => false,
    }
}

impl V {
    pub fn to_f(&self) -> (r: F)
        ensures ok(*self, r)
        decreases self
    {
        match self {
            V::N(n) => F::N(*n),
            V::A(arr) => {
                let r: Vec<F> = arr.iter().map(|v: &V| -> (f: F)
                    requires decreases_to!(self => v)
                    ensures ok(*v, f)
                    { v.to_f() }).collect();
                F::A(r)
            }
            V::T(t, b) => F::T(*t, Box::new(b.to_f())),
        }
    }
}
}
fn main(){}
