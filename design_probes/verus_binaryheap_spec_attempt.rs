use vstd::prelude::*;
use vstd::multiset::Multiset;
use std::collections::BinaryHeap;
use std::cmp::Reverse;
verus! {
#[derive(Debug, Clone, Copy, PartialEq, Eq, PartialOrd, Ord)]
pub struct Time(pub u64);

#[derive(Debug, Clone, Copy, PartialEq, Eq)]
pub struct Task { pub when: Time, pub closure: u64 }
impl PartialOrd for Task {
    fn partial_cmp(&self, other: &Self) -> Option<std::cmp::Ordering> {
        Some(self.cmp(other))
    }
}
impl Ord for Task {
    fn cmp(&self, other: &Self) -> std::cmp::Ordering {
        self.when.cmp(&other.when)
    }
}

#[verifier::external_type_specification]
#[verifier::external_body]
#[verifier::reject_recursive_types(T)]
pub struct ExBinaryHeap<T>(BinaryHeap<T>);

#[verifier::external_type_specification]
#[verifier::reject_recursive_types(T)]
pub struct ExReverse<T>(Reverse<T>);

pub uninterp spec fn heap_view(h: BinaryHeap<Reverse<Task>>) -> Multiset<Task>;

pub open spec fn is_min(t: Task, m: Multiset<Task>) -> bool {
    m.count(t) > 0 && forall|u: Task| m.count(u) > 0 ==> t.when.0 <= u.when.0
}

pub assume_specification[ BinaryHeap::<Reverse<Task>>::peek ](h: &BinaryHeap<Reverse<Task>>) -> (r: Option<&Reverse<Task>>)
    ensures
        heap_view(*h).len() == 0 ==> r.is_none(),
        heap_view(*h).len() > 0 ==> r.is_some() && is_min(r.unwrap().0, heap_view(*h));

pub assume_specification[ BinaryHeap::<Reverse<Task>>::pop ](h: &mut BinaryHeap<Reverse<Task>>) -> (r: Option<Reverse<Task>>)
    ensures
        heap_view(*old(h)).len() == 0 ==> r.is_none() && heap_view(*final(h)) == heap_view(*old(h)),
        heap_view(*old(h)).len() > 0 ==> r.is_some() && is_min(r.unwrap().0, heap_view(*old(h))) && heap_view(*final(h)) == heap_view(*old(h)).remove(r.unwrap().0);

pub struct W { pub cur_time: Time, pub tasks: BinaryHeap<Reverse<Task>> }

impl W {
    fn pop_task(&mut self, now: Time) -> (res: Option<u64>)
        ensures
            res.is_none() ==> heap_view(final(self).tasks) == heap_view(old(self).tasks)
                && forall|u: Task| heap_view(old(self).tasks).count(u) > 0 ==> u.when.0 > now.0,
            res.is_some() ==> exists|t: Task| t.closure == res.unwrap() && t.when.0 <= now.0 && is_min(t, heap_view(old(self).tasks))
                && heap_view(final(self).tasks) == heap_view(old(self).tasks).remove(t),
    {
        match self.tasks.peek() {
            Some(Reverse(Task { when, closure })) if *when <= now => {
                let res = Some(*closure);
                let _ = self.tasks.pop();
                res
            }
            _ => None,
        }
    }
}
}
fn main(){}
