use vstd::prelude::*;
verus! {
pub ghost enum S3 { Leaf(u64), Node(Seq<S3>) }
pub open spec fn ok4(s: S3) -> bool decreases s {
    match s { S3::Leaf(n) => n < 10, S3::Node(c) => forall|i: int| 0 <= i < c.len() ==> ok4(#[trigger] c[i]) }
}
proof fn a3(c: Seq<S3>) requires forall|i: int| 0 <= i < c.len() ==> ok4(#[trigger] c[i]) ensures ok4(S3::Node(c)) {}
proof fn a4(c: Seq<S3>, i: int) requires ok4(S3::Node(c)), 0 <= i < c.len() ensures ok4(c[i]) { assert(S3::Node(c)->Node_0 == c); }

pub enum S { Leaf(u64), Node(Vec<Box<S>>) }
pub open spec fn ok(s: S) -> bool decreases s {
    match s { S::Leaf(n) => n < 10, S::Node(c) => forall|i: int| 0 <= i < c@.len() ==> ok(*#[trigger] c@[i]) }
}
proof fn b3(c: Vec<Box<S>>) requires forall|i: int| 0 <= i < c@.len() ==> ok(*#[trigger] c@[i]) ensures ok(S::Node(c)) {}
proof fn b4(c: Vec<Box<S>>, i: int) requires ok(S::Node(c)), 0 <= i < c@.len() ensures ok(*c@[i]) { assert(S::Node(c)->Node_0 == c); }
}
fn main(){}
