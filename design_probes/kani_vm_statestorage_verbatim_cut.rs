pub mod vm {
    use core::slice;
    pub type RawVal = u64;
    pub type StateOffset = intx::U24;
    #[path = "/repo/crates/lib/mimium-lang/src/runtime/vm/ringbuffer.rs"]
    mod ringbuffer;
    use ringbuffer::Ringbuffer;
// ---- verbatim cut from vm.rs lines 25-56 ----
#[derive(Debug, Default, PartialEq)]
struct StateStorage {
    pos: usize,
    rawdata: Vec<u64>,
}
impl StateStorage {
    fn resize(&mut self, size: usize) {
        self.rawdata.resize(size, 0)
    }
    fn get_state(&self, size: u64) -> &[RawVal] {
        unsafe {
            let head = self.rawdata.as_ptr().add(self.pos);
            slice::from_raw_parts(head, size as _)
        }
    }
    fn get_state_mut(&mut self, size: usize) -> &mut [RawVal] {
        unsafe {
            let head = self.rawdata.as_mut_ptr().add(self.pos);
            slice::from_raw_parts_mut(head, size as _)
        }
    }
    fn get_as_ringbuffer(&mut self, size_in_samples: u64) -> Ringbuffer<'_> {
        let data_head = unsafe { self.rawdata.as_mut_ptr().add(self.pos) };
        Ringbuffer::new(data_head, size_in_samples)
    }
    fn push_pos(&mut self, offset: StateOffset) {
        self.pos = (self.pos as u64 + (std::convert::Into::<u64>::into(offset))) as usize;
    }
    fn pop_pos(&mut self, offset: StateOffset) {
        self.pos = (self.pos as u64 - (std::convert::Into::<u64>::into(offset))) as usize;
    }
}
// ---- end cut ----
    #[cfg(kani)]
    mod proofs {
        use super::*;
        #[kani::proof]
        fn state_get_in_bounds() {
            const N: usize = 8;
            let data: [u64; N] = kani::any();
            let mut st = StateStorage::default();
            st.rawdata = data.to_vec();
            let pos: usize = kani::any();
            let size: u64 = kani::any();
            kani::assume(pos <= N && size <= (N - pos) as u64);
            st.pos = pos;
            let s = st.get_state(size);
            assert!(s.len() == size as usize);
            if size > 0 { let k: usize = kani::any(); kani::assume(k < size as usize); assert!(s[k] == data[pos + k]); }
        }
        #[kani::proof]
        fn push_pop_inverse() {
            let mut st = StateStorage::default();
            let pos: usize = kani::any();
            let o: u32 = kani::any();
            kani::assume(o < (1 << 24));
            kani::assume(pos <= (usize::MAX >> 1));
            st.pos = pos;
            let off = StateOffset::from(intx::U24::try_from(o).unwrap());
            st.push_pos(off);
            assert!(st.pos == pos + o as usize);
            st.pop_pos(off);
            assert!(st.pos == pos);
        }
    }
}
