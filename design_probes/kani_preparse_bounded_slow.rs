pub mod parser {
    #[path = "/repo/crates/lib/mimium-lang/src/compiler/parser/token.rs"]
    pub mod token;
    #[path = "/repo/crates/lib/mimium-lang/src/compiler/parser/preparser.rs"]
    pub mod preparser;

    #[cfg(kani)]
    mod proofs {
        use super::token::{Token, TokenKind};
        use super::preparser::preparse;
        fn any_kind() -> TokenKind {
            match kani::any::<u8>() % 5 {
                0 => TokenKind::Ident,
                1 => TokenKind::Whitespace,
                2 => TokenKind::LineBreak,
                3 => TokenKind::SingleLineComment,
                _ => TokenKind::Int,
            }
        }
        #[kani::proof]
        #[kani::unwind(8)]
        fn trivia_attached_once() {
            const N: usize = 3;
            let mut toks: Vec<Token> = Vec::new();
            for i in 0..N { toks.push(Token::new(any_kind(), i, 1)); }
            toks.push(Token::new(TokenKind::Eof, N, 0));
            let pp = preparse(&toks);
            let has_syntax = pp.token_indices.len() > 0;
            if has_syntax {
                for i in 0..N {
                    if toks[i].is_trivia() {
                        let mut count = 0;
                        for (_k, v) in pp.leading_trivia_map.iter() { for &x in v.iter() { if x == i { count += 1; } } }
                        for (_k, v) in pp.trailing_trivia_map.iter() { for &x in v.iter() { if x == i { count += 1; } } }
                        assert!(count == 1);
                    }
                }
            }
            std::mem::forget(pp);
        }
    }
}
