use state_tree::tree::StateTreeSkeleton as S;
use state_tree::*;
fn f(c: Vec<S<u64>>) -> S<u64> { S::FnCall(c.into_iter().map(Box::new).collect()) }
fn main() {
    // old = [F(A), F(A,B)], new = [F(A)]   (A = Mem(1), B = Feed(1))
    let old = f(vec![f(vec![S::Mem(1)]), f(vec![S::Mem(1), S::Feed(1)])]);
    let new = f(vec![f(vec![S::Mem(1)])]);
    let plan = build_state_storage_patch_plan(old, new).unwrap();
    println!("{plan:?}");
    let old_storage = vec![11u64, 22, 33];
    println!("{:?}", apply_state_storage_patch_plan(&old_storage, &plan));
    // removal of first vs second child
    let old = f(vec![f(vec![S::Mem(1), S::Feed(1)]), f(vec![S::Mem(1)])]);
    let new = f(vec![f(vec![S::Mem(1)])]);
    let plan = build_state_storage_patch_plan(old, new).unwrap();
    println!("{plan:?}");
    println!("{:?}", apply_state_storage_patch_plan(&vec![11u64, 22, 33], &plan));
}
