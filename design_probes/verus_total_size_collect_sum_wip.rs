use vstd::prelude::*;
use vstd::std_specs::iter::IteratorSpec;
verus! {

pub open spec fn seq_sum(s: Seq<u64>) -> int decreases s.len() {
    if s.len() == 0 { 0 } else { seq_sum(s.drop_last()) + s.last() as int }
}

pub fn vx_sum_u64(v: Vec<u64>) -> (r: u64)
    requires seq_sum(v@) <= u64::MAX,
    ensures r as int == seq_sum(v@),
{
    let mut acc: u64 = 0;
    let mut i: usize = 0;
    proof { lemma_seq_sum_prefix_mono(v@, 0); }
    while i < v.len()
        invariant 0 <= i <= v.len(), acc as int == seq_sum(v@.take(i as int)), seq_sum(v@) <= u64::MAX,
        decreases v.len() - i
    {
        proof {
            assert(v@.take(i as int + 1).drop_last() == v@.take(i as int));
            lemma_seq_sum_prefix_mono(v@, i as int + 1);
        }
        acc = acc + v[i];
        i = i + 1;
    }
    proof { assert(v@.take(v@.len() as int) == v@); }
    acc
}
pub proof fn lemma_seq_sum_prefix_mono(s: Seq<u64>, n: int)
    requires 0 <= n <= s.len()
    ensures 0 <= seq_sum(s.take(n)) <= seq_sum(s)
    decreases s.len() - n
{
    if n == s.len() { assert(s.take(n) == s); lemma_nonneg(s); } else {
        lemma_seq_sum_prefix_mono(s, n + 1);
        assert(s.take(n + 1).drop_last() == s.take(n));
        lemma_nonneg(s.take(n));
    }
}
pub proof fn lemma_nonneg(s: Seq<u64>) ensures seq_sum(s) >= 0 decreases s.len() { if s.len() > 0 { lemma_nonneg(s.drop_last()); } }
pub const DELAY_ADDITIONAL_OFFSET: usize = 2;

pub trait SizedType {
    spec fn spec_word_size(&self) -> u64;
    fn word_size(&self) -> (r: u64) ensures r == self.spec_word_size();
}

pub enum StateTreeSkeleton<T: SizedType> {
    Delay {
        len: u64, //assume we are using only mono f64 data
    },
    Mem(T),
    Feed(T),
    FnCall(Vec<Box<StateTreeSkeleton<T>>>),
}

pub open spec fn sizes<T: SizedType>(c: Seq<Box<StateTreeSkeleton<T>>>) -> Seq<int>
    decreases c
{
    Seq::new(c.len(), |i: int| if 0 <= i < c.len() { size(*c[i]) } else { 0 })
}
pub open spec fn sum_to<T: SizedType>(c: Seq<Box<StateTreeSkeleton<T>>>, n: int) -> int
    decreases c, n
{
    if n <= 0 || n > c.len() { 0 } else { sum_to(c, n - 1) + size(*c[n - 1]) }
}
pub open spec fn size<T: SizedType>(s: StateTreeSkeleton<T>) -> int
    decreases s
{
    match s {
        StateTreeSkeleton::Delay { len } => 2 + len as int,
        StateTreeSkeleton::Mem(t) => t.spec_word_size() as int,
        StateTreeSkeleton::Feed(t) => t.spec_word_size() as int,
        StateTreeSkeleton::FnCall(c) => sum_to(c@, c@.len() as int),
    }
}

proof fn lemma_sum_prefix<T: SizedType>(c: Seq<Box<StateTreeSkeleton<T>>>, s: Seq<u64>, n: int)
    requires 0 <= n <= c.len(), s.len() == n, forall|i: int| 0 <= i < n ==> s[i] as int == size(*c[i]),
    ensures seq_sum(s) == sum_to(c, n)
    decreases n
{
    if n > 0 {
        lemma_sum_prefix(c, s.drop_last(), n - 1);
    }
}
proof fn lemma_size_nonneg<T: SizedType>(s: StateTreeSkeleton<T>) ensures size(s) >= 0 decreases s
{
    match s { StateTreeSkeleton::FnCall(c) => { lemma_sum_nonneg(c@, c@.len() as int); } _ => {} }
}
proof fn lemma_sum_nonneg<T: SizedType>(c: Seq<Box<StateTreeSkeleton<T>>>, n: int)
    ensures sum_to(c, n) >= 0 decreases c, n
{
    if n <= 0 || n > c.len() {} else { lemma_sum_nonneg(c, n - 1); lemma_size_nonneg(*c[n-1]); }
}
proof fn lemma_sum_mono<T: SizedType>(c: Seq<Box<StateTreeSkeleton<T>>>, i: int, n: int)
    requires 0 <= i <= n <= c.len()
    ensures sum_to(c, i) <= sum_to(c, n), i < n ==> sum_to(c, i) + size(*c[i]) <= sum_to(c, n)
    decreases n - i
{
    if i < n { lemma_sum_mono(c, i + 1, n); lemma_size_nonneg(*c[i]); }
}

impl<T: SizedType> StateTreeSkeleton<T> {
    pub fn total_size(&self) -> (r: u64)
        requires size(*self) <= u64::MAX
        ensures r as int == size(*self)
        decreases self
    {
        match self {
            StateTreeSkeleton::Delay { len } => DELAY_ADDITIONAL_OFFSET as u64 + *len,
            StateTreeSkeleton::Mem(t) | StateTreeSkeleton::Feed(t) => t.word_size(),
            StateTreeSkeleton::FnCall(children_layout) => { 
                proof { 
                    assert forall|i: int| 0 <= i < children_layout@.len() implies size(*children_layout@[i]) <= u64::MAX by {
                        lemma_sum_mono(children_layout@, i, children_layout@.len() as int);
                        lemma_sum_nonneg(children_layout@, i);
                    }
                }
                let it: Vec<u64> = children_layout
                .iter()
                .map(|child_layout: &Box<StateTreeSkeleton<T>>| -> (r: u64)
                    requires decreases_to!(self => child_layout), size(**child_layout) <= u64::MAX
                    ensures r as int == size(**child_layout)
                    { child_layout.total_size() }).collect();
                proof {
                    assert(it@.len() == children_layout@.len()); // L
                    assert(forall|i: int| 0 <= i < it@.len() ==> it@[i] as int == size(*children_layout@[i])); // M
                    lemma_sum_prefix(children_layout@, it@, children_layout@.len() as int);
                }
                vx_sum_u64(it)
            }
        }
    }
}
}
fn main(){}
