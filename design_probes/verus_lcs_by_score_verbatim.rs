use vstd::prelude::*;
verus! {
pub uninterp spec fn f64_max(a: f64, b: f64) -> f64;
pub assume_specification[ f64::max ](a: f64, b: f64) -> (r: f64)
    ensures r == f64_max(a, b);
pub assume_specification<T>[ <[T]>::reverse ](s: &mut [T])
    ensures final(s)@ == old(s)@.reverse();
#[derive(Debug)]
pub enum DiffResult {
    /// Element that exists in both sequences
    Common { old_index: usize, new_index: usize },
    /// Element that exists only in the old sequence (deleted)
    Delete { old_index: usize },
    /// Element that exists only in the new sequence (inserted)
    Insert { new_index: usize },
}

pub fn lcs_by_score<T>(
    old: &[T],
    new: &[T],
    mut score_fn: impl FnMut(&T, &T) -> f64,
) -> Vec<DiffResult> {
    let old_len = old.len();
    let new_len = new.len();

    // DP table: dp[i][j] = cumulative score
    let mut dp = vec![vec![0.0; new_len + 1]; old_len + 1];

    for i in 1..=old_len {
        for j in 1..=new_len {
            let score = score_fn(&old[i - 1], &new[j - 1]);

            if score > 0.0 {
                // If matched: diagonal value + match score
                dp[i][j] = (dp[i - 1][j - 1] + score).max(dp[i - 1][j].max(dp[i][j - 1]));
            } else {
                // If not matched: take the maximum value
                dp[i][j] = dp[i - 1][j].max(dp[i][j - 1]);
            }
        }
    }
    // Backtrack to restore the result
    let mut results = Vec::new();
    let (mut i, mut j) = (old_len, new_len);

    while i > 0 || j > 0 {
        if i > 0 && j > 0 {
            let score = score_fn(&old[i - 1], &new[j - 1]);

            if score > 0.0 {
                // Likely matched
                results.push(DiffResult::Common {
                    old_index: i - 1,
                    new_index: j - 1,
                });
                i -= 1;
                j -= 1;
            } else if j > 0 && (i == 0 || dp[i][j - 1] >= dp[i - 1][j]) {
                results.push(DiffResult::Insert { new_index: j - 1 });
                j -= 1;
            } else if i > 0 {
                results.push(DiffResult::Delete { old_index: i - 1 });
                i -= 1;
            }
        } else if j > 0 {
            results.push(DiffResult::Insert { new_index: j - 1 });
            j -= 1;
        } else if i > 0 {
            results.push(DiffResult::Delete { old_index: i - 1 });
            i -= 1;
        }
    }

    results.reverse(); // Reverse to get the correct order
    results
}
}
fn main(){}
