"""Build a Verus unit file from a contract template (`contracts/<unit>.vrs`).

Template = ordinary Verus text (spec functions, lemmas, trusted std specifications) plus
directive lines starting with `//@`:

  //@ include <relative file>
  //@ cut <repo-relative path> :: <selector> [rules=a,b,c]
  //@       selector may also be `closure <n> as <name> in <fn selector>`: the n-th closure of that
  //@       function, re-headed as `fn <name>(<closure params>) -> <ret> <body>`
  //@   ret <name>
  //@   sig                (following non-directive lines = requires/ensures/decreases text)
  //@   loop <n> [iter=<name>]
  //@   loop_start <n> / loop_end <n>   (text inserted as first / last statements of loop n's body)
  //@   closure <n> [params=<text up to `ret=` or end>] [ret=<text>]
  //@   before <anchor text>      /  //@ after <anchor text>   (+ following lines = inserted text)
  //@       before#N / after#N / after_stmt#N address the N-th occurrence of a repeated anchor
  //@   after_stmt <anchor>       (after the `;` ending the statement that starts at anchor)
  //@   rewrite <old> ==> <new>
  //@   rename <ident> <new ident>   (alpha-renaming, for identifiers that are Verus keywords)
  //@   replace_range <start anchor> ... <stop anchor> ==> <new>   (both anchors inclusive)
  //@   tail <name> <anchor>      block-tail expression E starting at anchor -> `let name = E; <text> name`
  //@   body_start
  //@   attr               (following lines = attributes put in front of the item)
  //@   every_loop         (following lines = loop contract for EVERY loop of the function; a line
  //@                       `pre: <stmt>` is inserted before the loop; `$K` = loop ordinal)
  //@   abstract           the body is replaced by `{ unimplemented!() }` and the item marked
  //@                       `#[verifier::external_body]` (signature + injected contract stay)
  //@   use <template>     append the clauses of a `//@ template <name>` .. `//@ end` block
  //@ end
  //@ foreach <path> :: <impl header> recv=mut|ref|any [match=<regex>] use=<template> [rules=..]
  //@       one cut per method of that impl (with that receiver kind, name matching the regex) that is
  //@       not cut explicitly elsewhere in the template; each gets the template's clauses

Everything between `//@ cut` and `//@ end` is replaced by the cut, normalised and
contract-injected repository text.
"""
import copy
import os
import re
from .cut import SourceFile, LostAnchor, sha
from .norm import normalise, DEFAULT_RULES
from .inject import apply_clauses

REPO = os.environ.get("VX_REPO", "/repo")


class Cut:
    def __init__(self, path, selector, rules):
        self.path, self.selector, self.rules = path, selector, rules
        self.clauses = []
        self.src_lines = None
        self.sha = None
        self.text = None
        self.out_lines = None  # (first, last) line in generated file
        self.has_body = False
        self.name = selector.split()[-1]


def build(template_path, out_path, canary=False, repo=None, mutate=None):
    """returns dict(cuts=[Cut], norm_log=[..], text=str). `mutate` (self-test only) is a function
    (cut, text) -> text applied to the *extracted copy* before normalisation."""
    repo = repo or REPO
    base = os.path.dirname(template_path)
    out, cuts, norm_log = [], [], []
    files = {}
    templates = {}
    explicit = set()
    arm_decls = {}
    side = []
    norm_ctx = {}

    def lines_of(path):
        with open(path, encoding="utf-8") as f:
            return f.read().split("\n")

    def process(lines):
        i = 0
        while i < len(lines):
            ln = lines[i]
            s = ln.strip()
            if s.startswith("//@ include "):
                inc = s[len("//@ include "):].strip()
                process(lines_of(os.path.join(base, inc)))
                i += 1
                continue
            if s.startswith("//@ cut "):
                m = re.match(r"//@ cut (\S+) :: (.*?)(?: rules=(\S+))?$", s)
                if not m:
                    raise LostAnchor(f"bad cut directive: {s}")
                rules = list(DEFAULT_RULES) + (m.group(3).split(",") if m.group(3) else [])
                cut = Cut(m.group(1), m.group(2).strip(), rules)
                i += 1
                i = parse_clauses(lines, i, cut.clauses)
                emit_cut(cut)
                i += 1
                continue
            if s.startswith("//@ side_obligations "):
                side.extend(x.strip() for x in s[len("//@ side_obligations "):].split(",") if x.strip())
                i += 1
                continue
            if s.startswith("//@ require_text "):
                m = re.match(r"//@ require_text (\S+) :: (.*)$", s)
                lit = m.group(2).replace("\\n", "\n")
                if "".join(lit.split()) not in "".join(source(m.group(1)).src.split()):
                    raise LostAnchor(f"require_text: {m.group(1)} no longer contains {lit[:60]!r}")
                i += 1
                continue
            if s.startswith("//@ cut_consts "):
                # every module-level `const` item of the file that is not cut explicitly (a constant introduced later is
                # picked up automatically instead of making the unit undecided)
                m = re.match(r"//@ cut_consts (\S+)(?: except=(\S+))?$", s)
                sf0 = source(m.group(1))
                skip = set((m.group(2) or "").split(","))
                for it0 in sf0.items:
                    if it0.kind == "const" and not it0.cfg_test and it0.name not in skip:
                        txt0 = sf0.text(it0)
                        out.append(f"// ---- vx cut_consts {m.group(1)} :: const {it0.name} ----")
                        out.extend(txt0.split("\n"))
                        norm_log.append(f"cut_consts: const {it0.name} of {m.group(1)} cut verbatim")
                i += 1
                continue
            if s.startswith("//@ frame_no_mention "):
                # frame condition by token scan: the item must not mention the identifier at all (then it cannot write it)
                m = re.match(r"//@ frame_no_mention (\S+) :: (.*?) :: (\w+)$", s)
                sf0 = source(m.group(1))
                from .rustlex import lex as _lex
                txt0 = sf0.text(sf0.find(m.group(2).strip()))
                if any(t.text == m.group(3) for t in _lex(txt0)):
                    raise LostAnchor(f"frame_no_mention: {m.group(2).strip()} now mentions `{m.group(3)}` (the assumed frame is no longer backed by the scan)")
                norm_log.append(f"frame by token scan: {m.group(2).strip()} does not mention `{m.group(3)}`")
                i += 1
                continue
            if s.startswith("//@ n13_def "):
                # the definition that rule N13 inlines: cut from the repository on this run
                m = re.match(r"//@ n13_def (\S+) :: (.*)$", s)
                sf0 = source(m.group(1))
                norm_ctx["n13_def"] = sf0.text(sf0.find(m.group(2).strip()))
                i += 1
                continue
            if s.startswith("//@ template "):
                name = s[len("//@ template "):].strip()
                cl = []
                i = parse_clauses(lines, i + 1, cl)
                templates[name] = cl
                i += 1
                continue
            if s.startswith("//@ foreach "):
                m = re.match(r"//@ foreach (\S+) :: (.*?) recv=(\w+)(?: match=(\S+))? use=(\w+)(?: rules=(\S+))?$", s)
                if not m:
                    raise LostAnchor(f"bad foreach directive: {s}")
                expand_foreach(*m.groups())
                i += 1
                continue
            out.append(ln)
            i += 1

    def parse_clauses(lines, i, clauses):
        if True:
            if True:
                cur = None
                while i < len(lines):
                    t = lines[i].strip()
                    if t.startswith("//@"):
                        d = t[3:].strip()
                        if d == "end":
                            break
                        op, _, arg = d.partition(" ")
                        arg = arg.strip().replace("\\n", "\n")
                        nth = None
                        if "#" in op:
                            op, _, nn = op.partition("#")
                            nth = int(nn)
                        if op == "ret":
                            cur = {"op": "ret", "name": arg, "text": ""}
                        elif op == "sig":
                            cur = {"op": "sig", "text": ""}
                        elif op in ("body_start", "attr", "every_loop", "abstract", "before_tail", "body_end"):
                            cur = {"op": op, "text": ""}
                        elif op == "use":
                            if arg not in templates:
                                raise LostAnchor(f"use: unknown template {arg}")
                            clauses.extend(copy.deepcopy(templates[arg]))
                            cur = None
                            i += 1
                            continue
                        elif op == "loop":
                            mm = re.match(r"(\d+)(?:\s+iter=(\w+))?$", arg)
                            cur = {"op": "loop", "n": int(mm.group(1)), "iter": mm.group(2), "text": ""}
                        elif op in ("loop_start", "loop_end"):
                            cur = {"op": op, "n": int(arg), "text": ""}
                        elif op == "closure":
                            mm = re.match(r"(\d+)(?:\s+params=(.*?))?(?:\s+ret=(.*))?$", arg)
                            cur = {"op": "closure", "n": int(mm.group(1)), "params": mm.group(2),
                                   "ret": mm.group(3), "text": ""}
                        elif op == "around_all":
                            cur = {"op": op, "anchor": arg, "text": ""}
                        elif op in ("nested_sig", "nested_body"):
                            cur = {"op": op, "name": arg, "text": ""}
                        elif op in ("before", "after", "after_stmt"):
                            cur = {"op": op, "anchor": arg, "text": "", "nth": nth}
                        elif op == "tail":
                            nm, _, anc = arg.partition(" ")
                            cur = {"op": "tail", "name": nm, "anchor": anc.strip(), "text": ""}
                        elif op == "rename":
                            o, _, n = arg.partition(" ")
                            cur = {"op": "rename", "old": o.strip(), "new": n.strip(), "text": ""}
                        elif op == "replace_range":
                            rng, _, new = arg.partition(" ==> ")
                            a, _, b = rng.partition(" ... ")
                            cur = {"op": "replace_range", "start": a, "stop": b, "new": new, "text": ""}
                        elif op in ("rewrite", "rewrite_all", "rewrite_opt"):
                            if arg.endswith(" ==>"):
                                arg += " "
                            old, _, new = arg.partition(" ==> ")
                            cur = {"op": op, "old": old, "new": new, "text": ""}
                        else:
                            raise LostAnchor(f"unknown directive {t}")
                        clauses.append(cur)
                    else:
                        if cur is not None:
                            cur["text"] += lines[i] + "\n"
                    i += 1
                if i >= len(lines):
                    raise LostAnchor("cut without end")
                return i

    def expand_foreach(path, header, recv, rx, tname, rules_s):
        if tname not in templates:
            raise LostAnchor(f"foreach: unknown template {tname}")
        sf = source(path)
        impl = sf.find("impl " + header)
        rules = list(DEFAULT_RULES) + (rules_s.split(",") if rules_s else [])
        n = 0
        for ch in impl.children:
            if ch.kind != "fn" or ch.cfg_test:
                continue
            if (path, header, ch.name) in explicit:
                continue
            if rx and not re.search(rx, ch.name):
                continue
            hdr = "".join(ch.header.split())
            kind = "mut" if "(&mutself" in hdr or "(mutself" in hdr else ("ref" if "(&self" in hdr else "other")
            if recv != "any" and kind != recv:
                continue
            cut = Cut(path, f"method {header}::{ch.name}", rules)
            cut.clauses = copy.deepcopy(templates[tname])
            emit_cut(cut)
            n += 1
        if n == 0:
            raise LostAnchor(f"foreach matched no method: {header} recv={recv} match={rx}")

    def source(path):
        p = os.path.join(repo, path)
        if p not in files:
            if not os.path.exists(p):
                raise LostAnchor(f"missing file {p}")
            files[p] = SourceFile(p)
        return files[p]

    def emit_cut(cut):
        sf = source(cut.path)
        mclo = re.match(r"closure (\d+) as (\w+) in (.*)$", cut.selector)
        mrng = re.match(r"range(?:\[(?P<kn>\d+/\d+)\])? (.*?) \.\.\. (.*?) as (\w+)(\(.*\)(?:\s*->\s*.*?)?) in (fn .*|method .*)$", cut.selector)
        if mrng:
            class _M:  # keep the positional group numbers used below, plus group 6 = k/n
                def __init__(self, m): self.m = m
                def group(self, i): return self.m.group("kn") if i == 6 else self.m.group(i + 1)
            mrng = _M(mrng)
        marm = re.match(r"arm (.*?) as (\w+)(\(.*\)(?:\s*->\s*.*?)?) in (fn .*|method .*)$", cut.selector)
        if mclo:
            it = sf.find(mclo.group(3))
            raw, cs, ce = sf.closure_as_fn(it, int(mclo.group(1)), mclo.group(2))
            from .rustlex import line_of
            s, e, l0, l1 = cs, ce, line_of(sf.src, cs), line_of(sf.src, ce)
            cut.name = mclo.group(2)
        elif mrng:
            it = sf.find(mrng.group(5))
            kn = mrng.group(6)
            nth, total = (int(kn.split("/")[0]), int(kn.split("/")[1])) if kn else (0, 0)
            raw, cs, ce = sf.range_as_fn(it, mrng.group(1).replace("\\n", "\n"), mrng.group(2).replace("\\n", "\n"), mrng.group(3), mrng.group(4), nth, total)
            from .rustlex import line_of
            s, e, l0, l1 = cs, ce, line_of(sf.src, cs), line_of(sf.src, ce)
            cut.name = mrng.group(3)
        elif marm:
            it = sf.find(marm.group(4))
            raw, cs, ce = sf.arm_as_fn(it, marm.group(1).strip(), marm.group(2), marm.group(3))
            from .rustlex import line_of
            s, e, l0, l1 = cs, ce, line_of(sf.src, cs), line_of(sf.src, ce)
            cut.name = marm.group(2)
        elif re.match(r"outlined (fn .*|method .*)$", cut.selector):
            fsel = re.match(r"outlined (fn .*|method .*)$", cut.selector).group(1)
            it = sf.find(fsel)
            arms = arm_decls.get((cut.path, fsel), [])
            if not arms:
                raise LostAnchor(f"outlined {fsel}: the template cuts no arm of it")
            raw = sf.outlined_fn(it, arms)
            s, e, l0, l1 = sf.span(it)
            norm_log.append(f"{cut.selector}: X7 the bodies of {len(arms)} match arms replaced by calls of the functions they are cut as (rule X4): " + ", ".join(a[1] for a in arms))
        elif re.match(r"nested (.*) in (fn .*|method .*)$", cut.selector):
            mn = re.match(r"nested (.*) in (fn .*|method .*)$", cut.selector)
            it = sf.find_nested(sf.find(mn.group(2)), mn.group(1))
            raw = sf.text(it)
            s, e, l0, l1 = sf.span(it)
        else:
            it = sf.find(cut.selector)
            raw = sf.text(it)
            s, e, l0, l1 = sf.span(it)
        cut.src_lines = (l0, l1)
        cut.sha = sha(raw)
        cut.raw = raw
        cut.has_body = (it.kind == "fn" and it.body_open >= 0) and not any(c["op"] == "abstract" for c in cut.clauses)
        cut.abstract = any(c["op"] == "abstract" for c in cut.clauses)
        if mutate is not None:
            raw = mutate(cut, raw)
        log = []
        txt = normalise(raw, cut.rules, log, norm_ctx)
        norm_log.extend(f"{cut.selector}: {l}" for l in log)
        clauses = list(cut.clauses)
        if canary and cut.has_body:
            clauses.append({"op": "body_start", "text": " proof { assert(false); } /*VX-CANARY*/"})
        if clauses:
            txt = apply_clauses(txt, clauses)
        first = len(out) + 1
        out.append(f"// ---- vx cut {cut.path} :: {cut.selector} (lines {l0}-{l1}, sha256 {cut.sha[:16]}) ----")
        out.extend(txt.split("\n"))
        out.append("// ---- vx end ----")
        cut.out_lines = (first, len(out))
        cut.text = txt
        cuts.append(cut)

    def prescan(lines):
        for ln in lines:
            t = ln.strip()
            if t.startswith("//@ include "):
                prescan(lines_of(os.path.join(base, t[len("//@ include "):].strip())))
            ma = re.match(r"//@ cut (\S+) :: arm (.*?) as (\w+)(\(.*\)(?:\s*->\s*.*?)?) in (fn .*?|method .*?)(?: rules=\S+)?$", t)
            if ma:
                arm_decls.setdefault((ma.group(1), ma.group(5)), []).append((ma.group(2).strip(), ma.group(3), ma.group(4)))
            m = re.match(r"//@ cut (\S+) :: method (.*)::(\w+)(?: rules=\S+)?$", t)
            if m:
                explicit.add((m.group(1), " ".join(m.group(2).split()), m.group(3)))

    prescan(lines_of(template_path))
    process(lines_of(template_path))
    text = "\n".join(out) + "\n"
    os.makedirs(os.path.dirname(out_path), exist_ok=True)
    with open(out_path, "w", encoding="utf-8") as f:
        f.write(text)
    return {"cuts": cuts, "norm_log": norm_log, "text": text, "side_obligations": side}
