"""Build a Verus unit file from a contract template (`contracts/<unit>.vrs`).

Template = ordinary Verus text (spec functions, lemmas, trusted std specifications) plus
directive lines starting with `//@`:

  //@ include <relative file>
  //@ cut <repo-relative path> :: <selector> [rules=a,b,c]
  //@       selector may also be `closure <n> as <name> in <fn selector>`: the n-th closure of that
  //@       function, re-headed as `fn <name>(<closure params>) -> <ret> <body>`
  //@   ret <name>
  //@   sig                (following non-directive lines = requires/ensures/decreases text)
  //@   loop <n> [iter=<name>]
  //@   loop_start <n> / loop_end <n>   (text inserted as first / last statements of loop n's body)
  //@   closure <n> [params=<text up to `ret=` or end>] [ret=<text>]
  //@   before <anchor text>      /  //@ after <anchor text>   (+ following lines = inserted text)
  //@       before#N / after#N / after_stmt#N address the N-th occurrence of a repeated anchor
  //@   after_stmt <anchor>       (after the `;` ending the statement that starts at anchor)
  //@   rewrite <old> ==> <new>
  //@   rename <ident> <new ident>   (alpha-renaming, for identifiers that are Verus keywords)
  //@   replace_range <start anchor> ... <stop anchor> ==> <new>   (both anchors inclusive)
  //@   tail <name> <anchor>      block-tail expression E starting at anchor -> `let name = E; <text> name`
  //@   body_start
  //@ end

Everything between `//@ cut` and `//@ end` is replaced by the cut, normalised and
contract-injected repository text.
"""
import os
import re
from .cut import SourceFile, LostAnchor, sha
from .norm import normalise, DEFAULT_RULES
from .inject import apply_clauses

REPO = os.environ.get("VX_REPO", "/repo")


class Cut:
    def __init__(self, path, selector, rules):
        self.path, self.selector, self.rules = path, selector, rules
        self.clauses = []
        self.src_lines = None
        self.sha = None
        self.text = None
        self.out_lines = None  # (first, last) line in generated file
        self.has_body = False
        self.name = selector.split()[-1]


def build(template_path, out_path, canary=False, repo=None, mutate=None):
    """returns dict(cuts=[Cut], norm_log=[..], text=str). `mutate` (self-test only) is a function
    (cut, text) -> text applied to the *extracted copy* before normalisation."""
    repo = repo or REPO
    base = os.path.dirname(template_path)
    out, cuts, norm_log = [], [], []
    files = {}

    def lines_of(path):
        with open(path, encoding="utf-8") as f:
            return f.read().split("\n")

    def process(lines):
        i = 0
        while i < len(lines):
            ln = lines[i]
            s = ln.strip()
            if s.startswith("//@ include "):
                inc = s[len("//@ include "):].strip()
                process(lines_of(os.path.join(base, inc)))
                i += 1
                continue
            if s.startswith("//@ cut "):
                m = re.match(r"//@ cut (\S+) :: (.*?)(?: rules=(\S+))?$", s)
                if not m:
                    raise LostAnchor(f"bad cut directive: {s}")
                rules = list(DEFAULT_RULES) + (m.group(3).split(",") if m.group(3) else [])
                cut = Cut(m.group(1), m.group(2).strip(), rules)
                i += 1
                cur = None
                while i < len(lines):
                    t = lines[i].strip()
                    if t.startswith("//@"):
                        d = t[3:].strip()
                        if d == "end":
                            break
                        op, _, arg = d.partition(" ")
                        arg = arg.strip().replace("\\n", "\n")
                        nth = None
                        if "#" in op:
                            op, _, nn = op.partition("#")
                            nth = int(nn)
                        if op == "ret":
                            cur = {"op": "ret", "name": arg, "text": ""}
                        elif op == "sig":
                            cur = {"op": "sig", "text": ""}
                        elif op == "body_start":
                            cur = {"op": "body_start", "text": ""}
                        elif op == "loop":
                            mm = re.match(r"(\d+)(?:\s+iter=(\w+))?$", arg)
                            cur = {"op": "loop", "n": int(mm.group(1)), "iter": mm.group(2), "text": ""}
                        elif op in ("loop_start", "loop_end"):
                            cur = {"op": op, "n": int(arg), "text": ""}
                        elif op == "closure":
                            mm = re.match(r"(\d+)(?:\s+params=(.*?))?(?:\s+ret=(.*))?$", arg)
                            cur = {"op": "closure", "n": int(mm.group(1)), "params": mm.group(2),
                                   "ret": mm.group(3), "text": ""}
                        elif op in ("before", "after", "after_stmt"):
                            cur = {"op": op, "anchor": arg, "text": "", "nth": nth}
                        elif op == "tail":
                            nm, _, anc = arg.partition(" ")
                            cur = {"op": "tail", "name": nm, "anchor": anc.strip(), "text": ""}
                        elif op == "rename":
                            o, _, n = arg.partition(" ")
                            cur = {"op": "rename", "old": o.strip(), "new": n.strip(), "text": ""}
                        elif op == "replace_range":
                            rng, _, new = arg.partition(" ==> ")
                            a, _, b = rng.partition(" ... ")
                            cur = {"op": "replace_range", "start": a, "stop": b, "new": new, "text": ""}
                        elif op in ("rewrite", "rewrite_all"):
                            if arg.endswith(" ==>"):
                                arg += " "
                            old, _, new = arg.partition(" ==> ")
                            cur = {"op": op, "old": old, "new": new, "text": ""}
                        else:
                            raise LostAnchor(f"unknown directive {t}")
                        cut.clauses.append(cur)
                    else:
                        if cur is not None:
                            cur["text"] += lines[i] + "\n"
                    i += 1
                if i >= len(lines):
                    raise LostAnchor("cut without end")
                emit_cut(cut)
                i += 1
                continue
            out.append(ln)
            i += 1

    def emit_cut(cut):
        p = os.path.join(repo, cut.path)
        if p not in files:
            if not os.path.exists(p):
                raise LostAnchor(f"missing file {p}")
            files[p] = SourceFile(p)
        sf = files[p]
        mclo = re.match(r"closure (\d+) as (\w+) in (.*)$", cut.selector)
        if mclo:
            it = sf.find(mclo.group(3))
            raw, cs, ce = sf.closure_as_fn(it, int(mclo.group(1)), mclo.group(2))
            from .rustlex import line_of
            s, e, l0, l1 = cs, ce, line_of(sf.src, cs), line_of(sf.src, ce)
            cut.name = mclo.group(2)
        else:
            it = sf.find(cut.selector)
            raw = sf.text(it)
            s, e, l0, l1 = sf.span(it)
        cut.src_lines = (l0, l1)
        cut.sha = sha(raw)
        cut.raw = raw
        cut.has_body = (it.kind == "fn" and it.body_open >= 0)
        if mutate is not None:
            raw = mutate(cut, raw)
        log = []
        txt = normalise(raw, cut.rules, log)
        norm_log.extend(f"{cut.selector}: {l}" for l in log)
        clauses = list(cut.clauses)
        if canary and cut.has_body:
            clauses.append({"op": "body_start", "text": " proof { assert(false); } /*VX-CANARY*/"})
        if clauses:
            txt = apply_clauses(txt, clauses)
        first = len(out) + 1
        out.append(f"// ---- vx cut {cut.path} :: {cut.selector} (lines {l0}-{l1}, sha256 {cut.sha[:16]}) ----")
        out.extend(txt.split("\n"))
        out.append("// ---- vx end ----")
        cut.out_lines = (first, len(out))
        cut.text = txt
        cuts.append(cut)

    process(lines_of(template_path))
    text = "\n".join(out) + "\n"
    os.makedirs(os.path.dirname(out_path), exist_ok=True)
    with open(out_path, "w", encoding="utf-8") as f:
        f.write(text)
    return {"cuts": cuts, "norm_log": norm_log, "text": text}
