"""Replay: attach a concrete input of the real code to an obligation that already failed (or whose
proof annotations were lost).  The same searchers also serve as the BOUNDED stand-ins of vx/props.py `bounded_checks`
(clauses no contract decides): there a hit is a violation, a miss is reported as a bounded unit, never as a proof."""
import json
import os
import re
import shutil
import subprocess
import time

REPO = os.environ.get("VX_REPO", "/repo")


def _build(name, here, out):
    crate = os.path.join(here, "replay", name)
    tgt = os.path.join(out, "target-replay")
    lock = os.path.join(REPO, "Cargo.lock")
    if os.path.exists(lock):
        shutil.copy(lock, os.path.join(crate, "Cargo.lock"))
    env = dict(os.environ, CARGO_NET_OFFLINE="true", CARGO_TARGET_DIR=tgt)
    p = subprocess.run(["cargo", "build", "--release", "--offline", "-q"], cwd=crate, env=env,
                       capture_output=True, text=True)
    if p.returncode != 0:
        return None, p.stderr[-2000:]
    binname = {"state_tree": "st_replay", "ffi_serde": "ffi_replay", "parser": "parser_replay"}.get(name, name)
    return os.path.join(tgt, "release", binname), ""


def _write(prop, out, payload):
    d = os.path.join(out, "replay")
    os.makedirs(d, exist_ok=True)
    n = 1
    while os.path.exists(os.path.join(d, f"{prop}-{n}.json")):
        n += 1
    path = os.path.join(d, f"{prop}-{n}.json")
    with open(path, "w") as f:
        json.dump(payload, f, indent=1)
    return path


def _search_state_tree(here, out, depth=4):
    depth = int(os.environ.get("VX_REPLAY_DEPTH", depth))
    exe, err = _build("state_tree", here, out)
    if exe is None:
        return None, "replay harness does not build against the current tree: " + err[-400:]
    try:
        p = subprocess.run([exe, "search", str(depth)], capture_output=True, text=True, timeout=600)
    except subprocess.TimeoutExpired:
        return None, "replay search timeout"
    m = re.search(r"FOUND old=(\S+) new=(\S+) clause=(.*?) tried=(\d+)", p.stdout)
    if m:
        return {"cmd": ["st_replay", "wf", m.group(1), m.group(2)], "old": m.group(1), "new": m.group(2),
                "clause": m.group(3), "tried": int(m.group(4))}, ""
    note = p.stdout.strip()[-300:] + p.stderr.strip()[-300:]
    # completeness clause on the unambiguous family (leaf children of pairwise distinct shape, common ones in the same order)
    try:
        p = subprocess.run([exe, "survivors-search", str(depth)], capture_output=True, text=True, timeout=600)
    except subprocess.TimeoutExpired:
        return None, note + "; survivors search timeout"
    m = re.search(r"FOUND old=(\S+) new=(\S+) clause=(.*?) tried=(\d+)", p.stdout)
    if m:
        return {"cmd": ["st_replay", "survivors", m.group(1), m.group(2)], "old": m.group(1), "new": m.group(2),
                "clause": m.group(3), "tried": int(m.group(4))}, ""
    note += "; " + p.stdout.strip()[-200:]
    # ... with identically shaped siblings, children only removed or only added ("up to exchange among identically shaped siblings")
    try:
        p = subprocess.run([exe, "survivors-search-dups", str(depth)], capture_output=True, text=True, timeout=600)
    except subprocess.TimeoutExpired:
        return None, note + "; duplicate-siblings search timeout"
    m = re.search(r"FOUND old=(\S+) new=(\S+) clause=(.*?) tried=(\d+)", p.stdout)
    if m:
        return {"cmd": ["st_replay", "survivors-dups", m.group(1), m.group(2)], "old": m.group(1), "new": m.group(2),
                "clause": m.group(3), "tried": int(m.group(4))}, ""
    note += "; " + p.stdout.strip()[-200:]
    # ... and on the second family (similar function-call siblings; a prefix removed, fresh leaves appended)
    try:
        p = subprocess.run([exe, "survivors-search-similar", str(depth)], capture_output=True, text=True, timeout=600)
    except subprocess.TimeoutExpired:
        return None, note + "; similar-siblings search timeout"
    m = re.search(r"FOUND old=(\S+) new=(\S+) clause=(.*?) tried=(\d+)", p.stdout)
    if m:
        return {"cmd": ["st_replay", "survivors", m.group(1), m.group(2)], "old": m.group(1), "new": m.group(2),
                "clause": m.group(3), "tried": int(m.group(4))}, ""
    note += "; " + p.stdout.strip()[-200:]
    # ... and one level down, with large cells (the edit is inside a nested call node)
    try:
        p = subprocess.run([exe, "survivors-search-nested", str(depth)], capture_output=True, text=True, timeout=600)
    except subprocess.TimeoutExpired:
        return None, note + "; nested search timeout"
    m = re.search(r"FOUND old=(\S+) new=(\S+) clause=(.*?) tried=(\d+)", p.stdout)
    if m:
        return {"cmd": ["st_replay", "survivors-nested", m.group(1), m.group(2)], "old": m.group(1), "new": m.group(2),
                "clause": m.group(3), "tried": int(m.group(4))}, ""
    return None, note + "; " + p.stdout.strip()[-200:]


def _search_ffi(here, out):
    exe, err = _build("ffi_serde", here, out)
    if exe is None:
        return None, "replay harness does not build against the current tree: " + err[-400:]
    try:
        p = subprocess.run([exe, "search"], capture_output=True, text=True, timeout=600)
    except subprocess.TimeoutExpired:
        return None, "replay search timeout"
    m = re.search(r"FOUND index=(\d+) value=(.*?) clause=(.*)", p.stdout)
    if m:
        return {"cmd": ["ffi_replay", "run", m.group(1)], "value": m.group(2), "clause": m.group(3)}, ""
    return None, (p.stdout.strip()[-300:] + p.stderr.strip()[-300:])


def _search_parser(here, out):
    exe, err = _build("parser", here, out)
    if exe is None:
        return None, "replay harness does not build against the current tree: " + err[-400:]
    try:
        p = subprocess.run([exe, "search", os.environ.get("VX_REPLAY_DEPTH", "4")], capture_output=True, text=True, timeout=900)
    except subprocess.TimeoutExpired:
        return None, "replay search timeout"
    m = re.search(r"FOUND src=(\".*?\") clause=(.*) tried=(\d+)", p.stdout)
    if m:
        src = json.loads(m.group(1)) if _is_json_str(m.group(1)) else m.group(1).strip('"')
        return {"cmd": ["parser_replay", "run", src], "src": src, "clause": m.group(2)}, ""
    return None, p.stdout.strip()[-300:]


def _is_json_str(s):
    try:
        json.loads(s)
        return True
    except Exception:
        return False


def _search_privacy(here, out):
    exe, err = _build("ffi_serde", here, out)
    if exe is None:
        return None, "replay harness does not build against the current tree: " + err[-400:]
    try:
        p = subprocess.run([exe, "privacy-search"], capture_output=True, text=True, timeout=900)
    except subprocess.TimeoutExpired:
        return None, "replay search timeout"
    m = re.search(r"FOUND index=(\d+) value=(.*?) clause=(.*)", p.stdout)
    if m:
        return {"cmd": ["ffi_replay", "privacy-run", m.group(1)], "value": m.group(2), "clause": m.group(3)}, ""
    return None, (p.stdout.strip()[-300:])


def _search_shadow(here, out):
    exe, err = _build("ffi_serde", here, out)
    if exe is None:
        return None, "replay harness does not build against the current tree: " + err[-400:]
    try:
        p = subprocess.run([exe, "shadow-search"], capture_output=True, text=True, timeout=900)
    except subprocess.TimeoutExpired:
        return None, "replay search timeout"
    m = re.search(r"FOUND index=(\d+) value=(.*?) clause=(.*)", p.stdout)
    if m:
        return {"cmd": ["ffi_replay", "shadow-run", m.group(1)], "value": m.group(2), "clause": m.group(3)}, ""
    return None, (p.stdout.strip()[-300:])


def _search_sched(here, out):
    exe, err = _build("ffi_serde", here, out)
    if exe is None:
        return None, "replay harness does not build against the current tree: " + err[-400:]
    try:
        p = subprocess.run([exe, "sched-search"], capture_output=True, text=True, timeout=900)
    except subprocess.TimeoutExpired:
        return None, "replay search timeout"
    m = re.search(r"FOUND index=(\d+) value=(.*?) clause=(.*)", p.stdout)
    if m:
        return {"cmd": ["ffi_replay", "sched-run", m.group(1)], "value": m.group(2), "clause": m.group(3)}, ""
    return None, (p.stdout.strip()[-300:])


def _search_boxed(here, out):
    exe, err = _build("ffi_serde", here, out)
    if exe is None:
        return None, "replay harness does not build against the current tree: " + err[-400:]
    try:
        p = subprocess.run([exe, "boxed-search"], capture_output=True, text=True, timeout=900)
    except subprocess.TimeoutExpired:
        return None, "replay search timeout"
    m = re.search(r"FOUND index=(\d+) value=(.*?) clause=(.*)", p.stdout)
    if m:
        return {"cmd": ["ffi_replay", "boxed-run", m.group(1)], "value": m.group(2), "clause": m.group(3)}, ""
    return None, (p.stdout.strip()[-300:])


def _search_schedvm(here, out):
    exe, err = _build("ffi_serde", here, out)
    if exe is None:
        return None, "replay harness does not build against the current tree: " + err[-400:]
    try:
        p = subprocess.run([exe, "schedvm-search"], capture_output=True, text=True, timeout=900)
    except subprocess.TimeoutExpired:
        return None, "replay search timeout"
    m = re.search(r"FOUND index=(\d+) value=(.*?) clause=(.*)", p.stdout)
    if m:
        return {"cmd": ["ffi_replay", "schedvm-run", m.group(1)], "value": m.group(2), "clause": m.group(3)}, ""
    return None, (p.stdout.strip()[-300:])


def _search_layout(here, out):
    exe, err = _build("ffi_serde", here, out)
    if exe is None:
        return None, "replay harness does not build against the current tree: " + err[-400:]
    try:
        p = subprocess.run([exe, "layout-search"], capture_output=True, text=True, timeout=900)
    except subprocess.TimeoutExpired:
        return None, "replay search timeout"
    m = re.search(r"FOUND index=(\d+) value=(.*?) clause=(.*)", p.stdout)
    if m:
        return {"cmd": ["ffi_replay", "layout-run", m.group(1)], "value": m.group(2), "clause": m.group(3)}, ""
    note = p.stdout.strip()[-300:]
    # stateful calls inside the branches of an `if` (each program in a child process)
    try:
        p = subprocess.run([exe, "branch-state"], capture_output=True, text=True, timeout=900)
    except subprocess.TimeoutExpired:
        return None, note + "; branch-state timeout"
    if p.stdout.strip().startswith("FAILS"):
        return {"cmd": ["ffi_replay", "branch-state"], "value": "stateful calls inside if branches", "clause": p.stdout.strip()[6:]}, ""
    return None, note + "; branch-state: " + p.stdout.strip()[-100:]


def _search_cst(here, out):
    exe, err = _build("ffi_serde", here, out)
    if exe is None:
        return None, "replay harness does not build against the current tree: " + err[-400:]
    try:
        p = subprocess.run([exe, "cst-search"], capture_output=True, text=True, timeout=900)
    except subprocess.TimeoutExpired:
        return None, "replay search timeout"
    m = re.search(r"FOUND src=(\".*?\") clause=(.*) tried=(\d+)", p.stdout)
    if m:
        src = json.loads(m.group(1)) if _is_json_str(m.group(1)) else m.group(1).strip('"')
        return {"cmd": ["ffi_replay", "cst-run", src], "src": src, "clause": m.group(2)}, ""
    return None, p.stdout.strip()[-300:]


def _search_type_serde(here, out):
    """types and interpreter values through their hand-written serde pairs and bincode"""
    exe, err = _build("ffi_serde", here, out)
    if exe is None:
        return None, "replay harness does not build against the current tree: " + err[-400:]
    try:
        p = subprocess.run([exe, "type-serde-search"], capture_output=True, text=True, timeout=600)
    except subprocess.TimeoutExpired:
        return None, "replay search timeout"
    m = re.search(r"FOUND index=(\d+) value=(.*?) clause=(.*)", p.stdout)
    if m:
        return {"cmd": ["ffi_replay", "type-serde-run", m.group(1)], "value": m.group(2), "clause": m.group(3)}, ""
    return None, (p.stdout.strip()[-300:] + p.stderr.strip()[-300:])


def _search_loader_seq(here, out):
    """sequences of macro expansions through the real host-side wrapper of a dynamically loaded macro (plugin/loader.rs)"""
    exe, err = _build("ffi_serde", here, out)
    if exe is None:
        return None, "replay harness does not build against the current tree: " + err[-400:]
    try:
        p = subprocess.run([exe, "loader-seq"], capture_output=True, text=True, timeout=600)
    except subprocess.TimeoutExpired:
        return None, "replay search timeout"
    m = re.search(r"FOUND value=(\".*?\") clause=(.*)", p.stdout)
    if m:
        return {"cmd": ["ffi_replay", "loader-seq"], "value": m.group(1), "clause": m.group(2)}, ""
    if p.returncode != 0:
        return {"cmd": ["ffi_replay", "loader-seq"], "value": "a sequence of macro expansions", "clause": "C20[every macro argument decodes to something equal to what was encoded] the host-side wrapper died: " + p.stderr.strip()[-200:]}, ""
    return None, (p.stdout.strip()[-300:] + p.stderr.strip()[-300:])


def _search_wasm_alloc(here, out):
    """live closure storage of the WASM runtime (bump allocator pointer after tick N and after tick 2N)"""
    exe, err = _build("ffi_serde", here, out)
    if exe is None:
        return None, "replay harness does not build against the current tree: " + err[-400:]
    try:
        p = subprocess.run([exe, "wasm-alloc"], capture_output=True, text=True, timeout=900)
    except subprocess.TimeoutExpired:
        return None, "replay search timeout"
    m = re.search(r"FOUND index=(\d+) value=(.*?) clause=(.*)", p.stdout)
    if m:
        return {"cmd": ["ffi_replay", "wasm-alloc", m.group(1)], "value": m.group(2), "clause": m.group(3)}, ""
    return None, (p.stdout.strip()[-300:] + p.stderr.strip()[-300:])


def _search_wasm_hotswap(here, out):
    """hot swaps through the WASM runtime, driven the way the CLI drives them, against the VM's new_resume"""
    exe, err = _build("ffi_serde", here, out)
    if exe is None:
        return None, "replay harness does not build against the current tree: " + err[-400:]
    try:
        p = subprocess.run([exe, "wasm-hotswap"], capture_output=True, text=True, timeout=900)
    except subprocess.TimeoutExpired:
        return None, "replay search timeout"
    m = re.search(r"FOUND index=(\d+) value=(.*?) clause=(.*)", p.stdout)
    if m:
        return {"cmd": ["ffi_replay", "wasm-hotswap", m.group(1)], "value": m.group(2), "clause": m.group(3)}, ""
    if p.returncode != 0:
        return {"cmd": ["ffi_replay", "wasm-hotswap"], "value": "a hot swap on the WASM runtime", "clause": "C05[state accesses inside the storage sized from the layout] the process died: " + p.stderr.strip()[-200:]}, ""
    return None, (p.stdout.strip()[-300:] + p.stderr.strip()[-300:])


def _search_macro_result(here, out):
    """a dynamically loaded macro's result on its whole way back into the program (loader wrapper + interpreter_value_to_raw)"""
    exe, err = _build("ffi_serde", here, out)
    if exe is None:
        return None, "replay harness does not build against the current tree: " + err[-400:]
    try:
        p = subprocess.run([exe, "macro-result"], capture_output=True, text=True, timeout=600)
    except subprocess.TimeoutExpired:
        return None, "replay search timeout"
    m = re.search(r"FOUND index=(\d+) value=(.*?) clause=(.*)", p.stdout)
    if m:
        return {"cmd": ["ffi_replay", "macro-result", m.group(1)], "value": m.group(2), "clause": m.group(3)}, ""
    return None, (p.stdout.strip()[-300:] + p.stderr.strip()[-300:])


def _search_let_release(here, out):
    """programs of the repaired let-scope findings (F16: aliased variable, F17: partial record pattern); F15 is a listed
    known finding and is replayed by the known-findings loop, not here"""
    exe, err = _build("ffi_serde", here, out)
    if exe is None:
        return None, "replay harness does not build against the current tree: " + err[-400:]
    for idx in ("1", "2"):
        try:
            p = subprocess.run([exe, "let-release", idx], capture_output=True, text=True, timeout=300)
        except subprocess.TimeoutExpired:
            return None, "replay timeout"
        if p.stdout.strip().startswith("FAILS"):
            return {"cmd": ["ffi_replay", "let-release", idx], "value": p.stdout.strip()[6:400], "clause": "let_local_init / bind_record::ensures[a local released at scope exit holds references of its own]"}, ""
    return None, "let-release: HOLDS"


def _search_drop_shared(here, out):
    """hand-assembled bytecode: closed task closures capturing (shared) closures are run and dropped through the FFI handle"""
    exe, err = _build("ffi_serde", here, out)
    if exe is None:
        return None, "replay harness does not build against the current tree: " + err[-400:]
    try:
        p = subprocess.run([exe, "drop-shared"], capture_output=True, text=True, timeout=300)
    except subprocess.TimeoutExpired:
        return None, "replay timeout"
    m = re.search(r"FAILS (C12\[.*?\]) index=(\d+) (.*)", p.stdout)
    if m:
        return {"cmd": ["ffi_replay", "drop-shared", m.group(2)], "value": m.group(3)[:500], "clause": m.group(1)}, ""
    return None, p.stdout.strip()[-200:]


def _search_exchange(here, out):
    """VM against WASM on programs that need many state exchange buffers next to static temporaries"""
    exe, err = _build("ffi_serde", here, out)
    if exe is None:
        return None, "replay harness does not build against the current tree: " + err[-400:]
    try:
        p = subprocess.run([exe, "wasm-exchange"], capture_output=True, text=True, timeout=900)
    except subprocess.TimeoutExpired:
        return None, "replay search timeout"
    m = re.search(r"FAILS (.*?) index=(\d+) (.*)", p.stdout)
    if m:
        return {"cmd": ["ffi_replay", "wasm-exchange", m.group(2)], "value": m.group(3)[:600], "clause": m.group(1)}, ""
    return None, p.stdout.strip()[-200:]


SEARCHERS = {"macro_result": _search_macro_result, "wasm_hotswap": _search_wasm_hotswap, "wasm_alloc": _search_wasm_alloc, "loader_seq": _search_loader_seq, "shadow": _search_shadow, "drop_shared": _search_drop_shared, "let_release": _search_let_release, "exchange": _search_exchange, "type_serde": _search_type_serde, "state_tree": lambda here, out: _search_state_tree(here, out, 4), "ffi_serde": _search_ffi, "parser": _search_parser, "privacy": _search_privacy, "sched": _search_sched, "boxed": _search_boxed, "cst": _search_cst, "layout": _search_layout, "schedvm": _search_schedvm}
TOOLS = {"st_replay": "state_tree", "ffi_replay": "ffi_serde", "parser_replay": "parser"}



def _searchers(cfg, unit=None):
    rp = cfg.get("replay_by_unit", {}).get(unit) or cfg.get("replay")
    names = rp if isinstance(rp, list) else ([rp] if rp else [])
    return [n for n in names if n in SEARCHERS]


def _unit_has_replay(cfg, unit):
    return unit in cfg.get("replay_by_unit", {}) or cfg.get("replay_units", [unit]).count(unit)


def _run_searchers(cfg, here, out, unit=None):
    """try each configured searcher in order; first concrete failing input wins"""
    notes = []
    for n in _searchers(cfg, unit):
        found, note = SEARCHERS[n](here, out)
        if found:
            return found, note
        notes.append(f"{n}: {note}")
    return None, "; ".join(notes)


def make_violation(prop, cfg, r, f, ob, here, out):
    payload = {"property": prop, "unit": r.unit, "obligation": ob, "function": f["fn"], "kind": f["kind"],
               "clause": f["clause"], "verifier": "verus", "verifier_output": f["raw"],
               "cut_sha256": {c.name: c.sha for c in r.cuts if c.name == f["fn"]}}
    found, note = (None, "no replay harness for this unit")
    if _searchers(cfg, r.unit) and _unit_has_replay(cfg, r.unit):
        found, note = _run_searchers(cfg, here, out, r.unit)
    if found:
        payload["failing_input"] = found
        path = _write(prop, out, payload)
        return {"line": f"VIOLATION property={prop} replay={path}", "payload": payload}
    payload["replay_search"] = note
    path = _write(prop, out, payload)
    return {"line": f"VIOLATION property={prop} replay={path} no-failing-input-found", "payload": payload}


def search(prop, cfg, r, here, out, why=""):
    """proof annotations lost (exit 2 territory): only a concrete failing input of the real code
    turns this into a violation"""
    if not _searchers(cfg, r.unit) or not _unit_has_replay(cfg, r.unit):
        return None
    found, note = _run_searchers(cfg, here, out, r.unit)
    if not found:
        return None
    payload = {"property": prop, "unit": r.unit,
               "obligation": f"{found['clause']} (proof annotations lost: {why})",
               "verifier": "verus (unit undecided) + replay on the real crate", "failing_input": found}
    path = _write(prop, out, payload)
    return {"line": f"VIOLATION property={prop} replay={path}", "payload": payload}


def search_frame(prop, fcfg, fr, here, out, why=""):
    """a broken frame condition alone is undecided; a concrete failing input makes it a violation"""
    if fcfg.get("searcher") not in SEARCHERS:
        return None
    found, note = SEARCHERS[fcfg["searcher"]](here, out)
    if not found:
        return None
    payload = {"property": prop, "unit": "frame:" + fr["name"],
               "obligation": f"{found['clause']} ({why})", "frame_sites": fr["sites"][:10],
               "verifier": "vx frame scan (assumed contract's frame condition broken) + replay on the real crate",
               "failing_input": found}
    path = _write(prop, out, payload)
    return {"line": f"VIOLATION property={prop} replay={path}", "payload": payload}


def make_kani_violation(prop, k, here, out, cfg=None, repo=None):
    from . import kani_run as K
    unit, _, harness = k["harness"].partition("::")
    instance = f"{prop}-{unit}"
    payload = {"property": prop, "harness": k["harness"], "obligation": k.get("failed", []), "verifier": "kani/cbmc",
               "verifier_output": k.get("output", "")[-6000:], "kani_unit": unit, "instance": instance}
    tests = K.concrete_playback(instance, harness, out)
    ok, tail = (False, "")
    if tests:
        payload["concrete_tests"] = tests
        subst = {}
        for ku in (cfg or {}).get("kani_units", []):
            if ku["unit"] == unit:
                subst = dict(ku.get("subst_quick", {}))
        payload["subst"] = subst
        ok, tail = K.native_playback(instance, unit, tests, here, out, repo or REPO, subst)
        payload["native_playback"] = {"reproduced": ok, "output": tail}
    path = _write(prop, out, payload)
    suffix = "" if ok else " no-failing-input-found"
    return {"line": f"VIOLATION property={prop} replay={path}{suffix}", "payload": payload}


def run_known(kf, here, out):
    """returns (still_fails: bool|None, detail)"""
    import shlex
    parts = [a.replace("\\n", "\n") for a in shlex.split(kf["cmd"])]
    name = TOOLS.get(parts[0])
    if name is None:
        return None, "unknown replay tool"
    exe, err = _build(name, here, out)
    if exe is None:
        return None, err[-300:]
    p = subprocess.run([exe] + parts[1:], capture_output=True, text=True, timeout=120)
    o = p.stdout.strip()
    if o.startswith("FAILS"):
        return True, o
    if o.startswith("HOLDS"):
        return False, o
    return None, (o + p.stderr)[-300:]


def replay_file(path, here, out):
    pl = json.load(open(path))
    fi = pl.get("failing_input")
    print(f"obligation: {pl.get('obligation')}")
    if pl.get("concrete_tests"):
        from . import kani_run as K
        import shutil as _sh
        inst = pl["instance"] + "-replay"
        _sh.rmtree(os.path.join(out, "kani", inst), ignore_errors=True)
        ok, tail = K.native_playback(inst, pl["kani_unit"], pl["concrete_tests"], here, out, REPO, pl.get("subst", {}))
        print(tail[-1200:])
        print("FAILS (counterexample reproduced natively on the real code)" if ok else "HOLDS (counterexample no longer fails)")
        return 1 if ok else 0
    if not fi:
        print("no concrete input recorded (no-failing-input-found); verifier output follows")
        print(pl.get("verifier_output", "")[:3000])
        return 1
    cmd = fi["cmd"]
    name = TOOLS.get(cmd[0])
    exe, err = _build(name, here, out)
    if exe is None:
        print(err)
        return 2
    p = subprocess.run([exe] + cmd[1:], capture_output=True, text=True)
    print(p.stdout.strip())
    return 1 if p.stdout.startswith("FAILS") else 0
