"""`vx cut` — verbatim extraction of whole items from a Rust source file.

An item is cut as the exact character range from its first attribute (or visibility /
keyword) to its closing brace or semicolon.  Nothing inside the range is altered here.
"""
import hashlib
from dataclasses import dataclass, field
from .rustlex import lex, line_of, Tok

ITEM_KW = {"fn", "struct", "enum", "union", "trait", "impl", "type", "const", "static", "mod",
           "use", "macro_rules", "extern"}


class LostAnchor(Exception):
    """The repository text no longer contains what a contract is anchored to."""


@dataclass
class Item:
    kind: str
    name: str
    header: str            # text between keyword and body (impl header, fn signature …)
    t0: int                # first token index (attribute / visibility)
    t1: int                # last token index (closing brace or `;`)
    kw: int                # token index of the keyword
    body_open: int = -1    # token index of `{` (or -1)
    children: list = field(default_factory=list)
    cfg_test: bool = False
    attrs: list = field(default_factory=list)  # (t_start, t_end) of each attribute


def _skip_attrs(toks, i, hi):
    attrs = []
    while i < hi and toks[i].text == "#":
        j = i + 1
        if j < hi and toks[j].text == "!":
            j += 1
        if j < hi and toks[j].text == "[":
            attrs.append((i, toks[j].mate))
            i = toks[j].mate + 1
        else:
            break
    return i, attrs


def parse_items(src, toks, lo, hi):
    """Parse the items in token range [lo, hi) (all at one nesting depth)."""
    items = []
    i = lo
    while i < hi:
        t0 = i
        i, attrs = _skip_attrs(toks, i, hi)
        if i >= hi:
            break
        depth = toks[i].depth
        # visibility
        if toks[i].text == "pub":
            i += 1
            if i < hi and toks[i].text == "(":
                i = toks[i].mate + 1
        # modifiers
        while i < hi and toks[i].text in ("default", "async", "unsafe", "const") and \
                i + 1 < hi and toks[i + 1].text in ("fn", "unsafe", "async", "extern", "impl", "trait", "const"):
            i += 1
        if i < hi and toks[i].text == "extern" and i + 1 < hi and toks[i + 1].kind == "str":
            if i + 2 < hi and toks[i + 2].text == "fn":
                i += 2
        if i >= hi:
            break
        kw = toks[i]
        if kw.text not in ITEM_KW:
            # macro invocation item or something unknown: skip to `;` or end of first group
            j = i
            while j < hi and not (toks[j].text == ";" and toks[j].depth == depth):
                if toks[j].kind == "open" and toks[j].depth == depth:
                    j = toks[j].mate
                    if toks[j].text == "}":
                        break
                j += 1
            i = j + 1
            continue
        kwi = i
        # find end
        j = i + 1
        body_open = -1
        semi_terminated = kw.text in ("type", "const", "static", "use")
        while j < hi:
            t = toks[j]
            if t.depth == depth:
                if t.text == ";" and t.kind == "punct":
                    break
                if t.kind == "open":
                    if t.text == "{" and not semi_terminated:
                        body_open = j
                        j = t.mate
                        break
                    j = t.mate
            j += 1
        if j >= hi:
            raise LostAnchor("item without end")
        t1 = j
        # struct Foo(..) ; / struct Foo; handled by `;` ; struct Foo {..} by brace.
        name = ""
        k = kwi + 1
        if kw.text == "impl":
            name = ""
        elif kw.text == "macro_rules":
            name = toks[kwi + 2].text if kwi + 2 < hi else ""
        else:
            if k < hi and toks[k].kind == "ident":
                name = toks[k].text
        hdr_end = toks[body_open].start if body_open >= 0 else toks[t1].start
        header = src[toks[kwi].start:hdr_end]
        it = Item(kw.text, name, header, t0, t1, kwi, body_open, attrs=attrs)
        for (a0, a1) in attrs:
            atxt = "".join(src[toks[a0].start:toks[a1].end].split())
            if atxt in ("#[cfg(test)]",):
                it.cfg_test = True
        if kw.text in ("impl", "mod", "trait") and body_open >= 0:
            it.children = parse_items(src, toks, body_open + 1, toks[body_open].mate)
        items.append(it)
        i = t1 + 1
    return items


class SourceFile:
    def __init__(self, path):
        self.path = path
        with open(path, encoding="utf-8") as f:
            self.src = f.read()
        self.toks = lex(self.src)
        self.items = parse_items(self.src, self.toks, 0, len(self.toks))

    # -- lookup ----------------------------------------------------------------
    def _walk(self, items, in_test=False):
        for it in items:
            if it.cfg_test:
                continue
            yield it, None
            if it.kind == "mod":
                for sub, parent in self._walk(it.children):
                    yield sub, parent
            elif it.kind in ("impl", "trait"):
                for sub in it.children:
                    yield sub, it

    def find_nested(self, outer: Item, selector: str):
        """rule X6: an item declared INSIDE the body of fn item `outer` (a local enum / struct / impl method), by the
        same selector forms as `find`"""
        if outer.body_open < 0:
            raise LostAnchor("nested cut: the outer item has no body")
        inner = parse_items(self.src, self.toks, outer.body_open + 1, self.toks[outer.body_open].mate)
        return self.find(selector, inner)

    def find(self, selector: str, items=None):
        """selector forms:
             fn NAME | struct NAME | enum NAME | trait NAME | const NAME | type NAME | static NAME
             impl HEADER            (HEADER compared after whitespace squeeze, e.g. `SizedType for u64`)
             method HEADER :: NAME  (HEADER as for impl, or a trait name for a provided/required method)
        """
        sel = selector.strip()
        kind, _, rest = sel.partition(" ")
        rest = rest.strip()
        sq = lambda s: "".join(s.split())
        found = []
        top = self.items if items is None else items
        if kind == "method":
            hdr, _, name = rest.rpartition("::")
            hdr = sq(hdr)
            for it, parent in self._walk(top):
                if parent is None or it.kind != "fn" or it.name != name:
                    continue
                ph = sq(parent.header)
                # strip leading keyword and generics: compare the tail
                if parent.kind == "impl":
                    tail = _impl_tail(parent.header)
                else:
                    tail = "trait" + parent.name
                    ph = tail
                if sq(tail) == hdr or (parent.kind == "trait" and parent.name == hdr):
                    found.append(it)
        elif kind == "impl":
            for it, parent in self._walk(top):
                if it.kind == "impl" and sq(_impl_tail(it.header)) == sq(rest):
                    found.append(it)
        else:
            for it, parent in self._walk(top):
                if parent is None and it.kind == kind and it.name == rest:
                    found.append(it)
        if len(found) != 1:
            raise LostAnchor(f"{self.path}: selector `{selector}` matched {len(found)} items")
        return found[0]

    def closure_as_fn(self, it: Item, n: int, name: str):
        """the n-th closure (1-based, source order) in the body of fn item `it`, re-headed as a
        free function `fn <name>(<closure params>) -> <ret> <body>`; the closure must have a block
        body.  Returns (text, char_start, char_end)."""
        from .norm import find_closures
        lo, hi = it.body_open, self.toks[it.body_open].mate
        cl = [c for c in find_closures(self.src, self.toks) if lo < c[0] < hi]
        if n < 1 or n > len(cl):
            raise LostAnchor(f"closure {n}: fn has {len(cl)} closures")
        b0, b1, s, e, blk = cl[n - 1]
        if not blk:
            raise LostAnchor("closure cut needs a block body")
        params = self.src[self.toks[b0].end:self.toks[b1].start] if b1 > b0 else ""
        between = self.src[self.toks[b1].end:self.toks[s].start].strip()   # `-> Ret` or empty
        body = self.src[self.toks[s].start:self.toks[e].end]
        return f"fn {name}({params.strip()}) {between} {body}", self.toks[b0].start, self.toks[e].end

    def arm_as_fn(self, it: Item, head: str, name: str, sig: str, locate_only: bool = False):
        """the match arm of fn item `it` whose pattern starts with the token sequence `head` (exactly one such arm
        with a block body), re-headed as `fn <name><sig> <body>`; `sig` = `(params) -> Ret` is given by the
        contract (the arm's free variables and pattern bindings become parameters).
        Returns (text, char_start, char_end)."""
        ht = [t.text for t in lex(head)]
        lo, hi = it.body_open, self.toks[it.body_open].mate
        hits = []
        for k in range(lo + 1, hi - len(ht)):
            if [t.text for t in self.toks[k:k + len(ht)]] == ht and self.toks[k - 1].text in ("{", ",", "}", "|"):
                # the `=>` of this arm at the pattern's depth
                d = self.toks[k].depth
                j = k
                while j < hi and not (self.toks[j].text == "=>" and self.toks[j].depth == d):
                    if self.toks[j].kind == "open":
                        j = self.toks[j].mate
                    j += 1
                if j < hi and self.toks[j + 1].text == "{":
                    hits.append((k, j + 1, self.toks[j + 1].mate, True))
                elif j < hi:
                    # expression arm: up to the `,` that ends it
                    e = j + 1
                    while e < hi and not (self.toks[e].text == "," and self.toks[e].depth == d):
                        if self.toks[e].kind == "open":
                            e = self.toks[e].mate
                        if self.toks[e].kind == "close" and self.toks[e].depth < d:
                            break
                        e += 1
                    hits.append((k, j + 1, e - 1, False))
        if len(hits) != 1:
            raise LostAnchor(f"arm `{head}`: {len(hits)} matching arms")
        k, bo, bc, blk = hits[0]
        if locate_only:
            return k, bo, bc, blk
        body = self.src[self.toks[bo].start:self.toks[bc].end]
        if not blk:
            body = "{ " + body + " }"
        return f"fn {name}{sig} {body}", self.toks[k].start, self.toks[bc].end

    def outlined_fn(self, it: Item, arms):
        """rule X7: the whole fn item `it` with the BODY of every match arm listed in `arms` -- (head, name, sig) of the
        X4 cuts of this template that take their arm from this function -- replaced by a call of the function the arm
        was re-headed as: `HEAD.. => { name(<the parameter names of sig>) }`.  The arm bodies themselves are verified
        as those functions (rule X4, verbatim); what remains here is the dispatch and the code around the match.
        Returns the text."""
        s0, e0 = self.toks[it.t0].start, self.toks[it.t1].end
        edits = []
        for head, name, sig in arms:
            k, bo, bc, blk = self.arm_as_fn(it, head, name, sig, locate_only=True)
            depth, j, params = 0, 0, sig.strip()
            assert params.startswith("(")
            # parameter list = up to the matching `)`
            for j, ch in enumerate(params):
                depth += ch in "([<"
                depth -= ch in ")]>"
                if depth == 0:
                    break
            plist = params[1:j]
            names, recv = [], ""
            d2, cur = 0, ""
            for ch in plist + ",":
                if ch == "," and d2 == 0:
                    if cur.strip():
                        names.append(cur.strip())
                    cur = ""
                else:
                    d2 += ch in "([<"
                    d2 -= ch in ")]>"
                    cur += ch
            args = []
            for n in names:
                if n in ("&mut self", "&self", "self"):
                    recv = "self."
                else:
                    args.append(n.split(":")[0].strip().removeprefix("mut "))
            call = f"{recv}{name}({', '.join(args)})"
            edits.append((self.toks[bo].start, self.toks[bc].end, "{ " + call + " }" if blk else call))
        txt = self.src[s0:e0]
        for a, b, t in sorted(edits, reverse=True):
            txt = txt[:a - s0] + t + txt[b - s0:]
        return txt

    def range_as_fn(self, it: Item, start: str, stop: str, name: str, sig: str, nth: int = 0, total: int = 0):
        """rule X5: the statements of fn item `it` from the literal `start` to the literal `stop` (both inclusive, each
        occurring exactly once in the body) re-headed as `fn <name><sig> { .. }`.  Returns (text, char_start, char_end)."""
        lo, hi = self.toks[it.body_open].start, self.toks[self.toks[it.body_open].mate].end
        body = self.src[lo:hi]
        # the start anchor must be unique; the stop anchor is its first occurrence after the start
        # `range[k/n]`: the k-th of exactly n occurrences of the start anchor; plain `range`: the anchor must be unique
        want = total or 1
        if body.count(start) != want:
            raise LostAnchor(f"range start anchor occurs {body.count(start)} times (expected {want}): {start[:40]!r}")
        ra = -1
        for _ in range(nth or 1):
            ra = body.find(start, ra + 1)
        rb = body.find(stop, ra + len(start))
        if rb < 0:
            raise LostAnchor(f"range stop anchor does not occur after the start anchor: {stop[:40]!r}")
        a = lo + ra
        b = lo + rb + len(stop)
        txt = self.src[a:b]
        # the range must be bracket-balanced
        tk = lex(txt)
        if any(t.kind in ("open", "close") and t.mate < 0 for t in tk):
            raise LostAnchor("range is not bracket-balanced")
        return f"fn {name}{sig} {{\n{txt}\n}}", a, b

    def text(self, it: Item) -> str:
        return self.src[self.toks[it.t0].start:self.toks[it.t1].end]

    def span(self, it: Item):
        s, e = self.toks[it.t0].start, self.toks[it.t1].end
        return s, e, line_of(self.src, s), line_of(self.src, e)


def _impl_tail(header: str) -> str:
    """`impl<T: X> Foo<T> where ..` -> `Foo<T>`; `impl<T> Tr for Foo<T>` -> `Tr for Foo<T>`.
    Generic parameter lists directly after `impl` are dropped, `where` clauses too; type
    arguments are kept but compared after whitespace squeeze with `<..>` removed."""
    h = header.strip()
    assert h.startswith("impl")
    h = h[4:].lstrip()
    if h.startswith("<"):
        d = 0
        for idx, ch in enumerate(h):
            if ch == "<":
                d += 1
            elif ch == ">" and h[idx - 1] != "-":
                d -= 1
                if d == 0:
                    h = h[idx + 1:]
                    break
    w = h.find(" where ")
    if w < 0:
        w = h.find("\nwhere")
    if w >= 0:
        h = h[:w]
    # remove generic arguments
    out, d = [], 0
    for ch in h:
        if ch == "<":
            d += 1
        elif ch == ">":
            d -= 1
        elif d == 0:
            out.append(ch)
    return " ".join("".join(out).split())


def sha(text: str) -> str:
    return hashlib.sha256(text.encode()).hexdigest()
