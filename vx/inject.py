"""`vx inject` — put sidecar contract clauses into the (normalised) text of one cut function.

Addressing is by ordinal (loops, closures) or by a literal anchor that must occur exactly
once; anything that cannot be located raises LostAnchor (=> the unit is *undecided*, exit 2,
never a violation).
"""
from .rustlex import lex
from .cut import LostAnchor
from .norm import find_closures


def _fn_parts(src, toks):
    """return (fn_kw_idx, body_open_idx) of the first `fn` at depth 0"""
    for i, t in enumerate(toks):
        if t.text == "fn" and t.kind == "ident" and t.depth == 0:
            k = i + 1
            while k < len(toks):
                if toks[k].depth == 0 and toks[k].text == "{":
                    return i, k
                if toks[k].depth == 0 and toks[k].text == ";":
                    return i, -1
                if toks[k].kind == "open":
                    k = toks[k].mate
                k += 1
    raise LostAnchor("no fn in cut text")


def find_loops(toks, lo, hi):
    """token indices (kw, body_open) of every for/while/loop in (lo, hi), in source order"""
    res = []
    k = lo
    while k < hi:
        t = toks[k]
        if t.kind == "ident" and t.text in ("for", "while", "loop") and not (k > 0 and toks[k - 1].text in (".", "::")):
            if t.text == "for" and toks[k + 1].text == "<":
                k += 1
                continue
            j = k + 1
            d = t.depth
            start_pat = t.text == "for"
            seen_in = not start_pat
            while j < hi:
                tj = toks[j]
                if tj.depth == d and tj.text == "in" and tj.kind == "ident":
                    seen_in = True
                if tj.depth == d and tj.text == "{" and seen_in:
                    # `while let P {..} = e` patterns with braces are not supported
                    break
                if tj.kind == "open":
                    j = tj.mate
                j += 1
            if j < hi:
                res.append((k, j))
        k += 1
    return res


def _find_nth(src, a, nth, what):
    """position of the nth (1-based) occurrence of a; nth=None requires uniqueness"""
    n = src.count(a)
    if nth is None:
        if n != 1:
            raise LostAnchor(f"{what} anchor occurs {n} times: {a[:60]!r}")
        return src.find(a)
    if nth < 1 or nth > n:
        raise LostAnchor(f"{what} anchor #{nth} but it occurs {n} times: {a[:60]!r}")
    pos = -1
    for _ in range(nth):
        pos = src.find(a, pos + 1)
    return pos


def apply_clauses(src, clauses):
    """clauses: list of dicts with key 'op'.  Applied in an order that keeps ordinals stable:
    rewrites first (they are literal), then everything else computed on one lex and applied
    back-to-front."""
    for c in clauses:
        if c["op"] == "rename":
            # alpha-renaming of an identifier that collides with a Verus keyword (token level)
            tk = lex(src)
            eds = [(t.start, t.end, c["new"]) for t in tk if t.kind == "ident" and t.text == c["old"]]
            if not eds:
                raise LostAnchor(f"rename: identifier {c['old']} not found")
            for s0, e0, r0 in sorted(eds, key=lambda x: -x[0]):
                src = src[:s0] + r0 + src[e0:]
    for c in clauses:
        if c["op"] == "replace_range":
            a, b = c["start"], c["stop"]
            if src.count(a) != 1 or src.count(b) != 1:
                raise LostAnchor(f"replace_range anchors occur {src.count(a)}/{src.count(b)} times: {a[:40]!r} .. {b[:40]!r}")
            i0 = src.find(a)
            i1 = src.find(b) + len(b)
            if i1 <= i0:
                raise LostAnchor("replace_range: stop anchor precedes start anchor")
            src = src[:i0] + c["new"] + src[i1:]
    for c in clauses:
        if c["op"] == "rewrite_all":
            if src.count(c["old"]) < 1:
                raise LostAnchor(f"rewrite_all anchor does not occur: {c['old'][:60]!r}")
            src = src.replace(c["old"], c["new"])
    for c in clauses:
        if c["op"] == "rewrite_opt":
            # a type-level adaptation that applies wherever the construct occurs, and is not needed where it does not
            src = src.replace(c["old"], c["new"])
    for c in clauses:
        if c["op"] == "rewrite":
            n = src.count(c["old"])
            if n != 1:
                raise LostAnchor(f"rewrite anchor occurs {n} times: {c['old'][:60]!r}")
            src = src.replace(c["old"], c["new"])
    toks = lex(src)
    edits = []
    if all(c["op"] in ("rewrite", "rewrite_all", "rewrite_opt", "replace_range", "rename", "before", "after", "tail", "after_stmt", "attr") for c in clauses):
        fnk, body = -1, -1
    else:
        fnk, body = _fn_parts(src, toks)
    if body >= 0:
        loops = find_loops(toks, body + 1, toks[body].mate)
        closures = [c for c in find_closures(src, toks) if c[0] > body]
    else:
        loops, closures = [], []
    for c in clauses:
        op = c["op"]
        if op in ("rewrite", "rewrite_all", "rewrite_opt", "replace_range", "rename"):
            continue
        if op == "sig":
            pos = toks[body].start if body >= 0 else toks[-1].start
            edits.append((pos, pos, "\n" + c["text"].rstrip() + "\n"))
        elif op == "ret":
            # `-> T` at depth 0 between fn and body
            k = fnk
            arrow = -1
            end = body if body >= 0 else len(toks) - 1
            while k < end:
                if toks[k].depth == 0 and toks[k].text == "->":
                    arrow = k
                    break
                if toks[k].kind == "open":
                    k = toks[k].mate
                k += 1
            if arrow < 0:
                raise LostAnchor("ret: function has no return type")
            j = arrow + 1
            while j < end and not (toks[j].depth == 0 and toks[j].text == "where"):
                j += 1
            ty_s, ty_e = toks[arrow + 1].start, toks[j - 1].end
            edits.append((ty_s, ty_e, f"({c['name']}: {src[ty_s:ty_e]})"))
        elif op == "loop":
            n = c["n"]
            if n < 1 or n > len(loops):
                raise LostAnchor(f"loop {n}: function has {len(loops)} loops")
            kw, bo = loops[n - 1]
            if c.get("iter"):
                # for x in E  ->  for x in <iter>: E
                j = kw + 1
                while not (toks[j].text == "in" and toks[j].depth == toks[kw].depth):
                    if toks[j].kind == "open":
                        j = toks[j].mate
                    j += 1
                edits.append((toks[j].end, toks[j].end, f" {c['iter']}:"))
            edits.append((toks[bo].start, toks[bo].start, "\n" + c["text"].rstrip() + "\n"))
        elif op in ("loop_start", "loop_end"):
            n = c["n"]
            if n < 1 or n > len(loops):
                raise LostAnchor(f"{op} {n}: function has {len(loops)} loops")
            kw, bo = loops[n - 1]
            pos = toks[bo].end if op == "loop_start" else toks[toks[bo].mate].start
            edits.append((pos, pos, "\n" + c["text"].rstrip() + "\n"))
        elif op == "closure":
            n = c["n"]
            if n < 1 or n > len(closures):
                raise LostAnchor(f"closure {n}: function has {len(closures)} closures")
            b0, b1, s, e, blk = closures[n - 1]
            if c.get("params") is not None:
                edits.append((toks[b0].start, toks[b1].end, "|" + c["params"] + "|"))
            head = ""
            if c.get("ret"):
                head += f" -> {c['ret']}"
            head += "\n" + c["text"].rstrip() + "\n"
            if blk:
                edits.append((toks[s].start, toks[s].start, head))
            else:
                edits.append((toks[s].start, toks[s].start, head + "{ "))
                edits.append((toks[e].end, toks[e].end, " }"))
        elif op in ("before", "after"):
            a = c["anchor"]
            p = _find_nth(src, a, c.get("nth"), op)
            if op == "after":
                p += len(a)
            edits.append((p, p, "\n" + c["text"].rstrip() + "\n"))
        elif op == "after_stmt":
            # insert after the `;` that ends the statement starting at <anchor>
            a = c["anchor"]
            p = _find_nth(src, a, c.get("nth"), op)
            k0 = next((k for k, t in enumerate(toks) if t.start == p), None)
            if k0 is None:
                raise LostAnchor("after_stmt anchor not at a token start")
            d = toks[k0].depth
            k = k0
            while k < len(toks) and not (toks[k].text == ";" and toks[k].depth == d):
                if toks[k].kind == "open":
                    k = toks[k].mate
                if toks[k].kind == "close" and toks[k].depth < d:
                    raise LostAnchor("after_stmt: statement has no terminating `;`")
                k += 1
            if k >= len(toks):
                raise LostAnchor("after_stmt: statement has no terminating `;`")
            edits.append((toks[k].end, toks[k].end, "\n" + c["text"].rstrip() + "\n"))
        elif op == "tail":
            # the block-tail expression starting at <anchor>:  E  ->  let NAME = E; <text> NAME
            a = c["anchor"]
            if src.count(a) != 1:
                raise LostAnchor(f"tail anchor occurs {src.count(a)} times: {a[:60]!r}")
            p = src.find(a)
            k0 = next((k for k, t in enumerate(toks) if t.start == p), None)
            if k0 is None or k0 == 0:
                raise LostAnchor("tail anchor not at a token start")
            if not (toks[k0 - 1].text in ("{", ";") or toks[k0 - 1].text == "}"):
                raise LostAnchor("tail anchor is not the start of a block-tail expression")
            d = toks[k0].depth
            k = k0
            while k < len(toks) and not (toks[k].kind == "close" and toks[k].depth == d - 1):
                if toks[k].kind == "open":
                    k = toks[k].mate
                if toks[k].text == ";" and toks[k].depth == d:
                    raise LostAnchor("tail anchor expression is followed by `;`")
                k += 1
            if k >= len(toks):
                raise LostAnchor("tail: no enclosing block")
            name = c["name"]
            bare = name.split(":")[0]
            edits.append((p, p, f"let {name} = "))
            edits.append((toks[k].start, toks[k].start, ";\n" + c["text"].rstrip() + f"\n{bare}\n"))
        elif op == "body_end":
            # just in front of the closing brace of the function body (for bodies of unit type)
            if body < 0:
                raise LostAnchor("body_end: no body")
            pos = toks[toks[body].mate].start
            edits.append((pos, pos, "\n" + c["text"].rstrip() + "\n"))
        elif op == "before_tail":
            # in front of the function body's tail expression (anchor-free: statements are delimited by `;` at body depth
            # or by the closing brace of a block-like statement that is not continued)
            if body < 0:
                raise LostAnchor("before_tail: no body")
            d = toks[body].depth + 1
            end = toks[body].mate
            k = body + 1
            start = k
            stmt0 = k
            blockkw = ("if", "match", "while", "for", "loop", "unsafe", "{", "proof")
            while k < end:
                t = toks[k]
                if t.text == ";" and t.depth == d:
                    start = k + 1
                    stmt0 = k + 1
                elif t.kind == "open":
                    j = t.mate
                    if t.text == "{" and toks[stmt0].text in blockkw and j + 1 < end \
                            and toks[j + 1].text not in ("else", ".", "?", "as", "+", "-", "*", "/", "==", "!=", "&&", "||", "<", ">", "<=", ">="):
                        start = j + 1
                        stmt0 = j + 1
                    k = j
                k += 1
            if start >= end:
                raise LostAnchor("before_tail: the body has no tail expression")
            edits.append((toks[start].start, toks[start].start, "\n" + c["text"].rstrip() + "\n"))
        elif op == "attr":
            edits.append((0, 0, c["text"].rstrip() + "\n"))
        elif op == "abstract":
            if body < 0:
                raise LostAnchor("abstract on bodiless fn")
            edits.append((0, 0, "#[verifier::external_body]\n"))
            edits.append((toks[body].start, toks[toks[body].mate].end, "{ unimplemented!() }"))
        elif op == "every_loop":
            lines = c["text"].split("\n")
            pre = [l.strip()[4:].strip() for l in lines if l.strip().startswith("pre:")]
            inv = "\n".join(l for l in lines if not l.strip().startswith("pre:")).rstrip()
            for n, (kw, bo) in enumerate(loops, 1):
                first = kw
                if kw >= 2 and toks[kw - 1].text == ":" and toks[kw - 2].kind == "life":
                    first = kw - 2
                if pre:
                    if toks[first - 1].text not in ("{", "}", ";"):
                        raise LostAnchor(f"every_loop: loop {n} is not in statement position")
                    edits.append((toks[first].start, toks[first].start,
                                  " ".join(pre).replace("$K", str(n)) + "\n"))
                edits.append((toks[bo].start, toks[bo].start, "\n" + inv.replace("$K", str(n)) + "\n"))
        elif op in ("nested_sig", "nested_body"):
            c = dict(c, where=("body" if op == "nested_body" else "sig"))
            # contract of a `fn NAME` item nested in the body of the cut function
            nm = c["name"]
            hits = [k for k in range(body + 1, toks[body].mate) if toks[k].text == "fn" and toks[k].kind == "ident"
                    and toks[k + 1].text == nm] if body >= 0 else []
            if len(hits) != 1:
                raise LostAnchor(f"nested_sig: {len(hits)} nested fn `{nm}`")
            k = hits[0]
            d = toks[k].depth
            j = k + 1
            while j < len(toks) and not (toks[j].text == "{" and toks[j].depth == d):
                if toks[j].kind == "open":
                    j = toks[j].mate
                j += 1
            if c.get("where") == "body":
                edits.append((toks[j].end, toks[j].end, "\n" + c["text"].rstrip() + "\n"))
            else:
                edits.append((toks[j].start, toks[j].start, "\n" + c["text"].rstrip() + "\n"))
        elif op == "around_all":
            # every statement containing the literal anchor gets <pre> before it and <post> after its `;`
            # (zero occurrences are fine: the clause comes from a template shared by many functions)
            pre, _, post = c["text"].partition("----\n")
            a = c["anchor"]
            p0 = src.find(a)
            while p0 >= 0:
                k0 = next((k for k, t in enumerate(toks) if t.start <= p0 < t.end), None)
                if k0 is None:
                    raise LostAnchor("around_all anchor not inside a token")
                d = toks[k0].depth
                b = k0
                while b > 0 and not (toks[b - 1].depth <= d and toks[b - 1].text in (";", "{", "}")):
                    b -= 1
                e = k0
                while e < len(toks) and not (toks[e].text == ";" and toks[e].depth == d):
                    if toks[e].kind == "open":
                        e = toks[e].mate
                    e += 1
                if e >= len(toks):
                    raise LostAnchor("around_all: statement has no terminating `;`")
                edits.append((toks[b].start, toks[b].start, pre.rstrip() + "\n"))
                edits.append((toks[e].end, toks[e].end, "\n" + post.rstrip() + "\n"))
                p0 = src.find(a, p0 + len(a))
        elif op == "body_start":
            if body < 0:
                raise LostAnchor("body_start on bodiless fn")
            edits.append((toks[body].end, toks[body].end, "\n" + c["text"].rstrip() + "\n"))
        else:
            raise LostAnchor(f"unknown clause op {op}")
    out = src
    # stable ordering: later positions first; for equal positions keep clause order reversed
    for idx, (s, e, r) in sorted(enumerate(edits), key=lambda x: (-x[1][0], -x[0])):
        out = out[:s] + r + out[e:]
    return out


def add_canary(src):
    """insert `proof { assert(false); }` (tagged) as first statement of the first fn body"""
    toks = lex(src)
    fnk, body = _fn_parts(src, toks)
    if body < 0:
        return src, False
    p = toks[body].end
    return src[:p] + " proof { assert(false); } /*VX-CANARY*/ " + src[p:], True
