"""Minimal Rust lexer + bracket matcher used by the extractor (`vx cut`), the normaliser
(`vx norm`) and the contract injector (`vx inject`).

It understands line/block comments (nested), string / raw string / byte string / char
literals, lifetimes, numeric literals, identifiers and punctuation.  It never interprets
macros: a macro invocation is an identifier, `!`, and a bracketed group like any other.
All positions are byte-free *character* offsets into the given text.
"""
from dataclasses import dataclass

OPEN = "([{"
CLOSE = ")]}"
MATCH = {"(": ")", "[": "]", "{": "}"}


@dataclass
class Tok:
    kind: str   # ident | life | num | str | char | punct | open | close
    text: str
    start: int
    end: int
    depth: int = 0      # bracket depth *outside* this token
    mate: int = -1      # index of matching bracket token (open/close only)

    def __repr__(self):
        return f"{self.kind}:{self.text!r}@{self.start}"


class LexError(Exception):
    pass


_PUNCT3 = ("<<=", ">>=", "...", "..=")
_PUNCT2 = ("::", "->", "=>", "==", "!=", "<=", ">=", "&&", "||", "+=", "-=", "*=", "/=",
           "%=", "^=", "&=", "|=", "<<", ">>", "..")


def lex(src: str):
    """Return the token list (comments and whitespace dropped)."""
    toks = []
    i, n = 0, len(src)
    while i < n:
        c = src[i]
        if c.isspace():
            i += 1
            continue
        if src.startswith("//", i):
            j = src.find("\n", i)
            i = n if j < 0 else j + 1
            continue
        if src.startswith("/*", i):
            d, j = 1, i + 2
            while j < n and d > 0:
                if src.startswith("/*", j):
                    d += 1
                    j += 2
                elif src.startswith("*/", j):
                    d -= 1
                    j += 2
                else:
                    j += 1
            if d:
                raise LexError("unterminated block comment")
            i = j
            continue
        # raw strings r"..", r#".."#, br#""#
        if c in "rb":
            j = i
            if src.startswith("br", j):
                j += 2
            elif c == "r":
                j += 1
            else:
                j = -1
            if j > 0:
                k = j
                while k < n and src[k] == "#":
                    k += 1
                if k < n and src[k] == '"' and (k > j or src[j] == '"'):
                    hashes = k - j
                    endm = '"' + "#" * hashes
                    e = src.find(endm, k + 1)
                    if e < 0:
                        raise LexError("unterminated raw string")
                    toks.append(Tok("str", src[i:e + len(endm)], i, e + len(endm)))
                    i = e + len(endm)
                    continue
        if c == '"' or (c == "b" and i + 1 < n and src[i + 1] == '"'):
            j = i + (2 if c == "b" else 1)
            while j < n and src[j] != '"':
                j += 2 if src[j] == "\\" else 1
            if j >= n:
                raise LexError("unterminated string")
            toks.append(Tok("str", src[i:j + 1], i, j + 1))
            i = j + 1
            continue
        if c == "'" or (c == "b" and i + 1 < n and src[i + 1] == "'"):
            j = i + (1 if c == "b" else 0)
            # char literal or lifetime?
            if j + 2 < n and src[j + 1] == "\\":
                k = j + 2
                while k < n and src[k] != "'":
                    k += 1
                toks.append(Tok("char", src[i:k + 1], i, k + 1))
                i = k + 1
                continue
            if j + 2 < n and src[j + 2] == "'":
                toks.append(Tok("char", src[i:j + 3], i, j + 3))
                i = j + 3
                continue
            # lifetime
            k = j + 1
            while k < n and (src[k].isalnum() or src[k] == "_"):
                k += 1
            toks.append(Tok("life", src[i:k], i, k))
            i = k
            continue
        if c.isalpha() or c == "_":
            j = i + 1
            while j < n and (src[j].isalnum() or src[j] == "_"):
                j += 1
            toks.append(Tok("ident", src[i:j], i, j))
            i = j
            continue
        if c.isdigit():
            j = i + 1
            while j < n and (src[j].isalnum() or src[j] == "_"):
                j += 1
            # fractional part: digit '.' digit (not `..`, not method call)
            if j + 1 < n and src[j] == "." and src[j + 1].isdigit():
                j += 1
                while j < n and (src[j].isalnum() or src[j] == "_"):
                    j += 1
            elif j < n and src[j] == "." and not (j + 1 < n and (src[j + 1] == "." or src[j + 1].isalpha() or src[j + 1] == "_")):
                j += 1  # `1.`
            # exponent sign
            if j < n and src[j] in "+-" and src[j - 1] in "eE" and src[i:j - 1].replace("_", "").replace(".", "").isdigit():
                j += 1
                while j < n and (src[j].isalnum() or src[j] == "_"):
                    j += 1
            toks.append(Tok("num", src[i:j], i, j))
            i = j
            continue
        if c in OPEN:
            toks.append(Tok("open", c, i, i + 1))
            i += 1
            continue
        if c in CLOSE:
            toks.append(Tok("close", c, i, i + 1))
            i += 1
            continue
        for group in (_PUNCT3, _PUNCT2):
            for p in group:
                if src.startswith(p, i):
                    toks.append(Tok("punct", p, i, i + len(p)))
                    i += len(p)
                    break
            else:
                continue
            break
        else:
            toks.append(Tok("punct", c, i, i + 1))
            i += 1
    # bracket matching
    stack = []
    for idx, t in enumerate(toks):
        if t.kind == "open":
            t.depth = len(stack)
            stack.append(idx)
        elif t.kind == "close":
            if not stack:
                raise LexError(f"unbalanced close at {t.start}")
            o = stack.pop()
            if MATCH[toks[o].text] != t.text:
                raise LexError(f"mismatched bracket at {t.start}")
            toks[o].mate = idx
            t.mate = o
            t.depth = len(stack)
        else:
            t.depth = len(stack)
    if stack:
        raise LexError("unbalanced open bracket")
    return toks


def line_of(src: str, pos: int) -> int:
    return src.count("\n", 0, pos) + 1
