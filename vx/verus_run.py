"""Run Verus on one generated unit file and classify the outcome."""
import json
import os
import re
import subprocess
import time

from .cut import LostAnchor
from .norm import Unsupported
from .rustlex import LexError
from .unit import build

VERUS = os.environ.get("VX_VERUS", "verus")

# messages that mean "this proof obligation was not discharged"
OBLIGATION_ERRORS = (
    "postcondition not satisfied",
    "precondition not satisfied",
    "Call to non-static function fails to satisfy",
    "assertion failed",
    "invariant not satisfied at end of loop body",
    "invariant not satisfied before loop",
    "possible arithmetic underflow/overflow",
    "possible division by zero",
    "could not prove termination",
    "unable to prove post-condition of closure",
    "decreases not satisfied",
    "index out of bounds",
    "precondition not met: index in bounds",
    "possible bit shift underflow/overflow",
    "loop invariant not satisfied",
    "unable to prove assertion",
    "constructed value may fail to meet its declared type invariant",
    "not all errors may have been reported",  # note, filtered below
)
# Verus' built-in safety obligations.  For a unit whose property says nothing about panics or arithmetic (its template
# lists them in `//@ side_obligations ...`) a failure of one of these is NOT a violation of the property: the unit
# becomes undecided and only a concrete failing input found by the replay search can turn it into a violation.
SIDE_KINDS = {
    "overflow": ("possible arithmetic underflow/overflow", "possible bit shift underflow/overflow"),
    "division": ("possible division by zero",),
    "index": ("index out of bounds", "precondition not met: index in bounds"),
    "termination": ("could not prove termination", "decreases not satisfied"),
}
UNDECIDED_MARKERS = ("Resource limit (rlimit) exceeded", "rlimit exceeded", "timed out", "out of memory")


class UnitResult:
    def __init__(self, unit):
        self.unit = unit
        self.status = "ok"            # ok | violation | undecided
        self.reason = ""
        self.verified = 0
        self.errors = 0
        self.failed = []              # list of dict(fn, kind, clause, line, text)
        self.cuts = []
        self.norm_log = []
        self.smt_ms = 0
        self.total_ms = 0
        self.wall_s = 0.0
        self.cmd = ""
        self.stderr = ""
        self.fn_times = []
        self.trusted = []
        self.out_path = ""
        self.lost_fns = []
        self.side_failed = []


def scan_trusted(text):
    """mechanical scan of the generated file for every unchecked assumption"""
    found = []
    lines = text.split("\n")
    for i, ln in enumerate(lines):
        s = ln.strip()
        if s.startswith("//"):
            continue
        for kw in ("assume_specification", "external_body", "assume(", "admit(", "exec_allows_no_decreases_clause",
                   "external_fn_specification", "external_type_specification", "#[verifier::external]"):
            if kw in s:
                # describe with the next item line
                desc = s
                if kw == "external_body":
                    for j in range(i + 1, min(i + 6, len(lines))):
                        t = lines[j].strip()
                        if t and not t.startswith("//") and not t.startswith("#["):
                            desc = "external_body: " + t
                            break
                found.append(" ".join(desc.split())[:200])
    return found


def parse_errors(stderr, cuts, gen_lines):
    """yield dicts for each `error:` block"""
    blocks = re.split(r"\n(?=error(?:\[E\d+\])?: )", "\n" + stderr)
    out = []
    for b in blocks:
        b = b.strip("\n")
        m = re.match(r"error(\[E\d+\])?: (.*)", b)
        if not m:
            continue
        code, msg = m.group(1), m.group(2).strip()
        if msg.startswith("aborting due to"):
            continue
        locs = [(mm.group(1), int(mm.group(2))) for mm in re.finditer(r"--> (\S+?):(\d+):\d+", b)]
        # all gutter line numbers mentioned in the block (primary + secondary labels)
        label = ""
        lm = re.search(r"^\s*(\d+) \|(.*?)\n\s*\|\s*[-^]+ (failed (?:this )?(?:pre|post)condition)", b, re.M)
        lab_line = None
        if lm:
            lab_line = int(lm.group(1))
            label = lm.group(2).strip()
        line = locs[0][1] if locs else 0
        fn = None
        for c in cuts:
            if c.out_lines and c.out_lines[0] <= line <= c.out_lines[1]:
                fn = c.name
                break
        text = gen_lines[line - 1].strip() if 0 < line <= len(gen_lines) else ""
        out.append({"code": code, "msg": msg, "line": line, "fn": fn, "text": text, "label": label,
                    "label_line": lab_line, "raw": b[:1500]})
    return out


def run_unit(unit, template, out_dir, rlimit=30, seed=None, canary=False, mutate=None, repo=None, threads=None):
    res = UnitResult(unit)
    out_path = os.path.join(out_dir, unit + ("_canary" if canary else "") + ".rs")
    res.out_path = out_path
    t0 = time.time()
    try:
        b = build(template, out_path, canary=canary, mutate=mutate, repo=repo)
    except (LostAnchor, Unsupported, LexError) as e:
        res.status = "undecided"
        res.reason = f"{type(e).__name__}: {e}"
        res.wall_s = time.time() - t0
        return res
    res.cuts = b["cuts"]
    res.norm_log = b["norm_log"]
    res.trusted = scan_trusted(b["text"])
    gen_lines = b["text"].split("\n")
    cmd = [VERUS, out_path, "--edition", "2024", "--output-json", "--time", "--triggers-mode", "silent",
           "--multiple-errors", "1" if canary else "20", "--rlimit", str(rlimit)]
    if seed is not None:
        cmd += ["--smt-option", f"smt.random_seed={seed}", "--smt-option", f"sat.random_seed={seed}"]
    if threads:
        cmd += ["--num-threads", str(threads)]
    res.cmd = " ".join(cmd)
    try:
        p = subprocess.run(cmd, capture_output=True, text=True, timeout=1800, cwd=out_dir)
    except subprocess.TimeoutExpired:
        res.status = "undecided"
        res.reason = "verus timeout"
        res.wall_s = time.time() - t0
        return res
    res.stderr = p.stderr
    res.wall_s = time.time() - t0
    js = None
    try:
        start = p.stdout.index("{")
        js = json.loads(p.stdout[start:])
    except Exception:
        js = None
    errs = parse_errors(p.stderr, res.cuts, gen_lines)
    if js is None or "verification-results" not in js:
        res.status = "undecided"
        first = errs[0]["msg"] if errs else p.stderr.strip().split("\n")[-1:]
        res.reason = f"verus front-end failure: {first}"
        res.front_errors = errs
        return res
    vr = js["verification-results"]
    res.verified = vr.get("verified", 0)
    res.errors = vr.get("errors", 0)
    tm = js.get("times-ms", {})
    res.total_ms = tm.get("total", 0)
    smt = tm.get("smt", {})
    res.smt_ms = smt.get("smt-run", 0)
    for mod in smt.get("smt-run-module-times", []):
        for f in mod.get("function-breakdown", []):
            res.fn_times.append((f.get("function"), f.get("time", 0), f.get("success", True)))
    if vr.get("encountered-vir-error") or any(e["code"] for e in errs):
        res.status = "undecided"
        res.reason = "verus front-end failure: " + (errs[0]["msg"] if errs else "?")
        return res
    real = []
    limited = False
    side_msgs = tuple(m for k in b.get("side_obligations", []) for m in SIDE_KINDS.get(k, ()))
    side_failed = []
    for e in errs:
        if side_msgs and any(e["msg"].startswith(m) for m in side_msgs):
            side_failed.append(e)
    errs = [e for e in errs if e not in side_failed]
    res.side_failed = [f"{e['fn']}: {e['msg']} [{' '.join((e['label'] or e['text']).split())[:80]}]" for e in side_failed]
    for e in errs:
        if any(mk in e["msg"] for mk in UNDECIDED_MARKERS):
            limited = True      # this query ran out of resources: says nothing about the obligation
            continue
        if not any(e["msg"].startswith(k) for k in OBLIGATION_ERRORS):
            res.status = "undecided"
            res.reason = f"unclassified verus error: {e['msg']}"
            return res
        real.append(e)
    for e in real:
        kind = e["msg"]
        clause = e["label"] or e["text"]
        fn = e["fn"]
        if fn is None:
            # failure inside a hand-written lemma / helper of the template: the vocabulary no longer
            # fits the cut types — this is a lost proof, not a property violation
            res.status = "undecided"
            res.reason = f"template lemma no longer verifies (line {e['line']}: {e['text'][:80]})"
            return res
        res.failed.append({"fn": fn, "kind": kind, "clause": " ".join(clause.split())[:200], "line": e["line"],
                           "text": e["text"][:200], "raw": e["raw"]})
    if limited and not res.failed:
        res.status = "undecided"
        res.reason = "solver resource limit"
        return res
    if side_failed and not res.failed:
        res.status = "undecided"
        res.reason = "side obligation (not part of the property) no longer proved: " + "; ".join(res.side_failed[:3])
        return res
    if res.errors > 0 and not res.failed:
        res.status = "undecided"
        res.reason = "verus reported errors that could not be parsed"
        return res
    if res.failed:
        res.status = "violation"
    return res


def canary_check(res_canary, expect_fns):
    """every cut function with a body must fail exactly at its injected `assert(false)`"""
    got = set()
    for f in res_canary.failed:
        if "VX-CANARY" in f["text"] or "assert(false)" in f["text"]:
            got.add(f["fn"])
    missing = [f for f in expect_fns if f not in got]
    return missing
