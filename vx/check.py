#!/usr/bin/env python3
"""./check <property> [--tier quick|thorough] [--replay FILE]

Deciding step: every obligation Verus / Kani generate from the *current* /repo text of the
functions under contract must be discharged.  Exit 0 = all discharged (or only listed known
findings), exit 1 = `VIOLATION property=<id> replay=<path>`, exit 2 = undecided (lost anchor,
unsupported construct, solver limit) — never reported as a violation.
"""
import argparse
import concurrent.futures as cf
import json
import os
import re
import shutil
import subprocess
import sys
import time

HERE = os.path.dirname(os.path.dirname(os.path.abspath(__file__)))
sys.path.insert(0, HERE)
from vx.verus_run import run_unit, canary_check  # noqa: E402
from vx import props as P  # noqa: E402
from vx import kani_run as K  # noqa: E402
from vx import replay as R  # noqa: E402
from vx import selftest as ST  # noqa: E402
from vx import frame as F  # noqa: E402

OUT = os.path.join(HERE, "out")
EVID = os.path.join(HERE, "evidence")
REPO = os.environ.get("VX_REPO", "/repo")


def load_known():
    kf = os.path.join(HERE, "known_findings.txt")
    out = []
    if os.path.exists(kf):
        for ln in open(kf):
            ln = ln.strip()
            m = re.match(r"finding: property=(\S+) key=(\S+) cmd=(.*?) :: (.*)$", ln)
            if m:
                out.append({"property": m.group(1), "key": m.group(2), "cmd": m.group(3), "what": m.group(4)})
    return out


def main():
    ap = argparse.ArgumentParser()
    ap.add_argument("prop")
    ap.add_argument("--tier", default=os.environ.get("VERIF_TIER", "quick"), choices=["quick", "thorough"])
    ap.add_argument("--replay")
    ap.add_argument("--repo", default=REPO)
    args = ap.parse_args()
    seed = int(os.environ.get("VERIF_SEED", "0") or 0)
    prop = args.prop
    if prop not in P.PROPS:
        print(f"unknown or unclaimed property {prop}", file=sys.stderr)
        return 2
    cfg = P.PROPS[prop]
    if args.replay:
        return R.replay_file(args.replay, HERE, OUT)
    os.makedirs(OUT, exist_ok=True)
    os.makedirs(EVID, exist_ok=True)
    os.makedirs(os.path.join(OUT, "replay"), exist_ok=True)
    t0 = time.time()
    thorough = args.tier == "thorough"
    os.environ["VX_REPLAY_DEPTH"] = "5" if thorough else "4"
    rlimit = 60 if thorough else 30

    results, canaries, kani_results = [], [], []
    undecided, violations, known_lines = [], [], []
    jobs = {}
    with cf.ThreadPoolExecutor(max_workers=8) as ex:
        for u in cfg.get("verus_units", []):
            tpl = os.path.join(HERE, "contracts", u + ".vrs")
            jobs[ex.submit(run_unit, u, tpl, OUT, rlimit, None, False, None, args.repo)] = ("unit", u)
            jobs[ex.submit(run_unit, u, tpl, OUT, rlimit, None, True, None, args.repo)] = ("canary", u)
            if thorough:
                for s in (1 + seed, 2 + seed, 3 + seed):
                    od = os.path.join(OUT, f"seed{s}")
                    os.makedirs(od, exist_ok=True)
                    jobs[ex.submit(run_unit, u, tpl, od, rlimit, s, False, None, args.repo)] = ("seed", u)
        kjobs = K.submit_all(ex, cfg, HERE, OUT, args.repo, thorough, prop)
        for fut in cf.as_completed(list(jobs) + list(kjobs)):
            if fut in jobs:
                kind, u = jobs[fut]
                r = fut.result()
                if kind == "unit":
                    results.append(r)
                elif kind == "canary":
                    canaries.append(r)
                else:
                    if r.status != "ok":
                        base_ok = True
                        undecided.append(f"unit={u} reason=unstable-under-seed ({r.status}: {r.reason or [f['fn'] for f in r.failed]})")
            else:
                kani_results.extend(fut.result())

    # ---- classify Verus units -----------------------------------------------------------
    fn_under_contract, trusted, norm_log, samples = [], [], [], []
    obligations = discharged = 0
    solver_ms = 0
    for r in results:
        obligations += r.verified + r.errors
        discharged += r.verified
        solver_ms += r.smt_ms
        norm_log += [f"{r.unit}: {l}" for l in r.norm_log]
        trusted += [f"{r.unit}: {t}" for t in r.trusted]
        for c in r.cuts:
            fn_under_contract.append({"unit": r.unit, "item": c.selector, "file": c.path,
                                      "lines": list(c.src_lines), "sha256": c.sha,
                                      "contract_clauses": len(c.clauses)})
        if r.status == "undecided":
            # proof annotations lost: try to attach a concrete failing input of the functions' postconditions
            found = R.search(prop, cfg, r, HERE, OUT, why=r.reason)
            if found:
                violations.append(found)
            else:
                undecided.append(f"unit={r.unit} reason={r.reason}")
        elif r.status == "violation":
            for f in r.failed:
                ob = f"{f['fn']}::{f['kind']}[{f['clause']}]"
                violations.append(R.make_violation(prop, cfg, r, f, ob, HERE, OUT))
    for r in canaries:
        if r.status == "undecided":
            if not any(r.unit in u for u in undecided):
                undecided.append(f"unit={r.unit} canary-run reason={r.reason}")
            continue
        expect = [c.name for c in r.cuts if c.has_body and not P.is_trusted_cut(r.unit, c)]
        missing = canary_check(r, expect)
        if missing:
            undecided.append(f"unit={r.unit} reason=vacuous-precondition canary did not fail in {missing}")
    # ---- frame conditions (token scan of the real source, see vx/frame.py) --------------------
    frame_results = F.run_frames(cfg, args.repo)
    for fr, fcfg in zip(frame_results, cfg.get("frames", [])):
        obligations += 1
        if fr["status"] == "ok":
            discharged += 1
            continue
        why = f"frame `{fr['name']}` {fr['status']}: {fr.get('detail', '')}"
        found = R.search_frame(prop, fcfg, fr, HERE, OUT, why) if fr["status"] == "broken" else None
        if found:
            violations.append(found)
        else:
            undecided.append(why)
    # ---- Kani units -------------------------------------------------------------------------
    bounded = []
    kani_checks = 0
    for k in kani_results:
        solver_ms += int(k.get("solver_s", 0) * 1000)
        for f in k.get("files", []):
            fn_under_contract.append(f)
        trusted += k.get("trusted", [])
        if k["status"] == "undecided":
            undecided.append(f"kani={k['harness']} reason={k['reason']}")
        elif k["status"] == "violation":
            violations.append(R.make_kani_violation(prop, k, HERE, OUT, cfg, args.repo))
        else:
            if k.get("bound"):
                bounded.append({"harness": k["harness"], "fn": k.get("fn"), "bound": k["bound"], "tool": "kani/cbmc",
                                "checks": k["checks"]})
            else:
                obligations += k["checks"]
                discharged += k["checks"]
                kani_checks += k["checks"]
        samples += k.get("samples", [])
    # ---- bounded stand-ins: clauses no contract within reach decides (stated bound; never counted as proved) --------
    for bc in cfg.get("bounded_checks", []):
        found, note = R.SEARCHERS[bc["searcher"]](HERE, OUT)
        if found:
            payload = {"property": prop, "unit": "bounded:" + bc["name"], "obligation": found.get("clause", bc["clause"]),
                       "verifier": "bounded exhaustive replay on the real crate (stand-in, not a proof): " + bc["bound"],
                       "failing_input": found}
            path = R._write(prop, OUT, payload)
            violations.append({"line": f"VIOLATION property={prop} replay={path}", "payload": payload})
        elif note and ("does not build" in note or "timeout" in note):
            undecided.append(f"bounded={bc['name']} reason={note[:200]}")
        else:
            bounded.append({"harness": "replay::" + bc["name"], "fn": bc["clause"], "bound": bc["bound"], "tool": "exhaustive enumeration on the real crate",
                            "checks": 1})
    # ---- floors (vacuity guard on obligation counts) ---------------------------------------
    floor = cfg.get("floor", {})
    if not violations and not undecided:
        if discharged < floor.get("obligations", 1):
            undecided.append(f"obligation count {discharged} below recorded floor {floor.get('obligations')}")
    # ---- known findings ------------------------------------------------------------------------
    for kf in load_known():
        if kf["property"] != prop:
            continue
        ok, detail = R.run_known(kf, HERE, OUT)
        if ok is None:
            undecided.append(f"known-finding {kf['key']} could not be replayed: {detail}")
        elif ok:
            known_lines.append(f"KNOWN-FINDING: property={prop} {kf['key']} {kf['what']} [{detail}]")
    # violations that are exactly a listed known finding are filtered inside R.make_violation (none today)

    # ---- self-test (thorough): contract strength on the extracted copy -------------------------
    self_test = None
    if thorough and not violations and not undecided:
        self_test = ST.run(prop, cfg, HERE, OUT, args.repo)
        if self_test and self_test.get("missed"):
            # a weak contract is a defect of the machinery, not of the repository: report, do not alarm
            print(f"SELF-TEST: {len(self_test['missed'])} semantic edits not caught: {self_test['missed']}")
        neutral = ST.run_neutral(prop, cfg, HERE, OUT, args.repo)
        if self_test is not None and neutral is not None:
            self_test["neutral_edits"] = neutral
            if neutral["false_alarms"]:
                print(f"SELF-TEST: semantics-preserving edits reported as violations (false alarms of the machinery): {neutral['false_alarms']}")

    wall = time.time() - t0
    for r in results:
        for f in r.failed[:3]:
            samples.append({"failed_obligation": f"{f['fn']}::{f['kind']}", "clause": f["clause"]})
    samples = (cfg.get("samples", []) + samples)[:12]
    level = "proof"
    ev = {
        "property_id": prop, "tier": args.tier, "seed": seed, "level": level,
        "coverage": {
            "obligations": obligations, "discharged": discharged,
            "checker_cmd": "; ".join([r.cmd for r in results][:2] + [k["cmd"] for k in kani_results][:2]),
            "trusted_base": sorted(set(cfg.get("trusted_base", []) + trusted)),
            "samples": samples,
            "functions_under_contract": fn_under_contract,
            "backend": {"verus": "Verus 0.2026.09.13 -> Z3 (bundled)", "kani": "Kani 0.68 -> CBMC 6.11 (CaDiCaL)"},
            "verus_functions_verified": sum(r.verified for r in results),
            "kani_checks_unbounded": kani_checks,
            "bounded": bounded,
            "frame_conditions": [{"name": fr["name"], "file": fr["file"], "status": fr["status"], "methods_scanned": fr["scanned"],
                                  "back_end": "vx token scan (syntactic; not Verus/Kani)"} for fr in frame_results],
            "solver_s": round(solver_ms / 1000.0, 2),
            "normalisations": norm_log,
            "extraction_drops": cfg.get("extraction_drops", []),
            "not_covered": cfg.get("not_covered", []),
            "undecided": undecided,
            "known_findings_reproduced": known_lines,
            "self_test": self_test,
            "explanation": cfg.get("explanation", ""),
        },
        "assumptions": sorted(set(cfg.get("assumptions", []) + P.GLOBAL_ASSUMPTIONS)),
        "wall_s": round(wall, 2),
        "violations": len(violations),
    }
    with open(os.path.join(EVID, prop + ".json"), "w") as f:
        json.dump(ev, f, indent=1)
    for l in known_lines:
        print(l)
    if violations:
        for v in violations:
            print(v["line"])
        return 1
    if undecided:
        for u in undecided:
            print(f"UNDECIDED property={prop} {u}")
        return 2
    print(f"OK property={prop} tier={args.tier} obligations={obligations} discharged={discharged} "
          f"bounded_units={len(bounded)} wall={wall:.1f}s")
    return 0


if __name__ == "__main__":
    sys.exit(main())
