"""Per-property configuration: which units decide it, what is trusted, what is not covered."""

GLOBAL_ASSUMPTIONS = [
    "Verus, Z3, Kani, CBMC and rustc are sound",
    "vx extraction cuts whole items verbatim; normalisation rules N1-N7 / per-cut literal rewrites preserve meaning (each application is listed under coverage.normalisations; the rule set is documented in DESIGN.md 3.2)",
    "machine integers: exact (Verus proves absence of overflow; Kani is bit-precise); f64: uninterpreted in Verus units, bit-precise in Kani units",
    "unsafe code outside the cut items is not examined",
]

ST_TRUSTED = [
    "std `f64::max`, `<[T]>::reverse`: assume_specification (uninterpreted result / sequence reverse)",
    "T-helpers with assumed std meaning: vx_concat2 ([a,b].concat()), vx_hashset_singleton ([k].into_iter().collect()), vx_hashset_extend_cloned (extend(iter().cloned()) = union), vx_hashset_into_vec (into_iter().collect() lists each element once), vx_usize_to_f64 / vx_f64_add (uninterpreted floats)",
    "N7: Iterator::sum over u64 = left fold with + of the collected items; enumerate = pairing with 0-based index (helpers themselves verified)",
    "PartialEq::eq for StateTreeSkeleton: external_body, contract `r == shape_eq` assumed (std Vec<Box<Self>> == recursion is rejected by Verus' trait-cycle check)",
    "axiom_vec_box_len: a Vec of 8-byte Boxes has fewer than usize::MAX elements (allocation limit isize::MAX bytes)",
    "N8: the crate's type parameter T: SizedType is instantiated with one opaque type whose word_size is an uninterpreted function of the value (parametricity)",
    "vstd specifications of Vec, slice, Option, HashSet::new/len/is_empty, iterator adapters (iter, map, take, zip, all, find, collect)",
]

PROPS = {
    "C08": {
        "verus_units": ["state_tree"],
        "replay": "state_tree",
        "floor": {"obligations": 50},
        "trusted_base": ST_TRUSTED,
        "assumptions": [
            "precondition `fits`: the mathematical size of each layout is <= usize::MAX (a layout that does not fit cannot be allocated)",
            "HashSet iteration order is arbitrary: proved irrelevant (lemma_apply_pointwise) rather than assumed",
        ],
        "not_covered": [
            "second sentence of C08 (completeness: every surviving subtree is carried over): needs optimality of the f64 score DP, uninterpreted in Verus; it is FALSE on the current tree, see known finding F1",
            "update_state_storage (10-line composition of build + apply returning Box<dyn Error>) is read off, not verified",
            "SizedType::word_size for mir::StateType (calls the type interner): assumed to be a pure function of the value",
        ],
        "explanation": "C08 clauses a-f are postconditions of build_patches_recursive / take_diff / build_state_storage_patch_plan / apply_patches / apply_state_storage_patch_plan (plan_ok, plan_wf, apply_seq, lemma_apply_pointwise); discharged for all layouts of any size and arity.",
        "samples": [
            {"obligation": "build_patches_recursive::ensures", "clause": "plan_ok(*old_skeleton, *new_skeleton, old_path@, new_path@, r@)"},
            {"obligation": "lcs_by_score::ensures", "clause": "script_from(r@, 0, 0, old@.len(), new@.len())"},
            {"obligation": "apply_patches::ensures", "clause": "final(new_storage)@ == apply_seq(old(new_storage)@, old_storage@, patches@, patches@.len())"},
            {"obligation": "build_state_storage_patch_plan::ensures", "clause": "r.is_none() == shape_eq(old, new); Some(plan) ==> plan_wf(old, new, plan)"},
        ],
        "extraction_drops": ["everything not cut (Display/Debug impls, StateTree (data-carrying) type, (de)serialize_tree_untagged, update_state_storage, #[cfg(test)])",
                             "derive(Debug) / derive(Clone) on StateTreeSkeleton (recursive derive is rejected by Verus; Clone of the skeleton is not used by any carrier)",
                             "supertrait `std::fmt::Debug` of SizedType"],
    },
}


def is_trusted_cut(unit, cut):
    """cuts whose body is external_body (contract assumed) — no canary expected"""
    return unit == "state_tree" and cut.name.endswith("::eq")
