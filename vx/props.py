"""Per-property configuration: which units decide it, what is trusted, what is not covered."""

GLOBAL_ASSUMPTIONS = [
    "Verus, Z3, Kani, CBMC and rustc are sound",
    "vx extraction cuts whole items verbatim; normalisation rules N1-N7 / per-cut literal rewrites preserve meaning (each application is listed under coverage.normalisations; the rule set is documented in DESIGN.md 3.2)",
    "machine integers: exact (Verus proves absence of overflow; Kani is bit-precise); f64: uninterpreted in Verus units, bit-precise in Kani units",
    "unsafe code outside the cut items is not examined",
]

ST_TRUSTED = [
    "std `f64::max`, `<[T]>::reverse`: assume_specification (uninterpreted result / sequence reverse)",
    "T-helpers with assumed std meaning: vx_concat2 ([a,b].concat()), vx_hashset_singleton ([k].into_iter().collect()), vx_hashset_extend_cloned (extend(iter().cloned()) = union), vx_hashset_into_vec (into_iter().collect() lists each element once), vx_usize_to_f64 / vx_f64_add (uninterpreted floats)",
    "N7: Iterator::sum over u64 = left fold with + of the collected items; enumerate = pairing with 0-based index (helpers themselves verified)",
    "PartialEq::eq for StateTreeSkeleton: the impl is external_body (std Vec<Box<Self>> == recursion is rejected by Verus' trait-cycle check), but its body is cut a second time and VERIFIED as the free function skeleton_eq (`r == shape_eq`), with `Vec<Box<Self>> == Vec<Box<Self>>` desugared by its std meaning (equal lengths and element-wise == through the boxes: verified helper vx_vec_box_eq)",
    "axiom_vec_box_len: a Vec of 8-byte Boxes has fewer than usize::MAX elements (allocation limit isize::MAX bytes)",
    "N8: the crate's type parameter T: SizedType is instantiated with one opaque type whose word_size is an uninterpreted function of the value (parametricity)",
    "vstd specifications of Vec, slice, Option, HashSet::new/len/is_empty, iterator adapters (iter, map, take, zip, all, find, collect)",
]

PROPS = {
    "C08": {
        "bounded_checks": [
            {"name": "survivors", "searcher": "state_tree",
             "clause": "completeness sentence of C08 (every surviving subtree is carried over, up to exchange among identically shaped siblings) on three unambiguous families + executable well-formedness copy",
             "bound": "all layout pairs up to 4 nodes for the well-formedness copy (147 456 pairs); survivors: child lists up to length 4 over (a) 7 pairwise distinct children incl. the zero-sized Mem0 and the empty call, common ones in the same order (663 328 pairs), (b) 4 leaf shapes with repetition, children only removed or only added (8 680 pairs), (c) 6 similar function-call siblings, a prefix removed and 1-2 fresh leaves appended (3 732 pairs); thorough tier: 5 nodes / length 5 (10 227 204, 306 259, 72 168 and 10 932 pairs)"},
        ],
        "verus_units": ["state_tree"],
        "replay": "state_tree",
        "floor": {"obligations": 58},
        "trusted_base": ST_TRUSTED + ["update_state_storage: the error type Box<dyn std::error::Error> is erased to () (Verus has no dyn Error; the function never constructs an error)"],
        "assumptions": [
            "precondition `fits`: the mathematical size of each layout is <= usize::MAX (a layout that does not fit cannot be allocated)",
            "HashSet iteration order is arbitrary: proved irrelevant (lemma_apply_pointwise) rather than assumed",
        ],
        "not_covered": [
            "second sentence of C08 (completeness: every surviving subtree is carried over): needs optimality of the f64 score DP, uninterpreted in Verus; it is FALSE on the current tree, see known finding F1 -- no contract decides it; a BOUNDED exhaustive enumeration over three families on which the sentence holds on the current tree stands in on every run (labelled bounded, not counted as proved)",
            "SizedType::word_size for mir::StateType (calls the type interner): assumed to be a pure function of the value",
        ],
        "explanation": "C08 clauses a-f are postconditions of build_patches_recursive / take_diff / build_state_storage_patch_plan / apply_patches / apply_state_storage_patch_plan (plan_ok, plan_wf, apply_seq, lemma_apply_pointwise); discharged for all layouts of any size and arity.",
        "samples": [
            {"obligation": "build_patches_recursive::ensures", "clause": "plan_ok(*old_skeleton, *new_skeleton, old_path@, new_path@, r@)"},
            {"obligation": "lcs_by_score::ensures", "clause": "script_from(r@, 0, 0, old@.len(), new@.len())"},
            {"obligation": "apply_patches::ensures", "clause": "final(new_storage)@ == apply_seq(old(new_storage)@, old_storage@, patches@, patches@.len())"},
            {"obligation": "build_state_storage_patch_plan::ensures", "clause": "r.is_none() == shape_eq(old, new); Some(plan) ==> plan_wf(old, new, plan)"},
        ],
        "extraction_drops": ["everything not cut (Display/Debug impls, StateTree (data-carrying) type, (de)serialize_tree_untagged, update_state_storage, #[cfg(test)])",
                             "derive(Debug) / derive(Clone) on StateTreeSkeleton (recursive derive is rejected by Verus; Clone of the skeleton is not used by any carrier)",
                             "supertrait `std::fmt::Debug` of SizedType"],
    },
}

RUNTIME_C05 = {
    "unit": "runtime",
    "subst_quick": {"RING_N": 8, "RING_N1": 9},
    "subst_thorough": {"RING_N": 16, "RING_N1": 17},
    "bound_note": "storage of N={RING_N} symbolic state words (cursor, sizes, delay length, inputs, times and all word contents fully symbolic)",
    "harnesses": [
        {"name": "vm_get_state_window", "bound": True, "fn": "vm.rs StateStorage::get_state", "doc": "window == rawdata[pos..pos+size], in bounds"},
        {"name": "vm_get_state_mut_frame", "bound": True, "fn": "vm.rs StateStorage::get_state_mut", "doc": "a write touches exactly the addressed word"},
        {"name": "vm_push_pop_inverse", "bound": False, "fn": "vm.rs StateStorage::{push_pos,pop_pos}", "doc": "full domain: every 24-bit offset, every non-overflowing cursor"},
        {"name": "vm_delay_one_step_spec", "bound": True, "fn": "vm.rs StateStorage::get_as_ringbuffer + ringbuffer.rs Ringbuffer::{new,process}", "doc": "one-step functional spec + frame: only the cell's 2+len words change"},
        {"name": "wasm_delay_equals_vm", "bound": True, "fn": "wasm.rs state_delay_host (X1) vs VM ring buffer", "doc": "bit-identical result and words"},
        {"name": "wasm_delay_refuses_bad_length", "bound": True, "fn": "wasm.rs state_delay_host (X1)", "doc": "len<=0 or >MAX: returns 0.0, no state change"},
        {"name": "wasm_mem_equals_vm", "bound": True, "fn": "wasm.rs state_mem_host (X1) vs VM Mem arm", "doc": "bit-identical result and words"},
        {"name": "wasm_push_pop_equals_vm", "bound": False, "fn": "wasm.rs state_{push,pop}_host (X1) vs vm.rs push_pos/pop_pos", "doc": "full domain"},
        {"name": "delay_samples_in_range", "bound": False, "fn": "wasm.rs state_delay_host: `time.clamp(0.0, (len-1) as f64) as u64`", "doc": "full domain: every f64, every length 1..=2^24: result <= len-1 (the fact the Verus unit wasm_state assumes for its uninterpreted float expression)"},
        {"name": "vm_arm_mem_equals_wasm", "bound": True, "fn": "vm.rs Machine::execute arm Instruction::Mem (X4) vs wasm.rs state_mem_host", "doc": "dst := old word, cell := src, frame on stack and state; == WASM host"},
        {"name": "vm_arm_get_state", "bound": True, "fn": "vm.rs Machine::execute arm Instruction::GetState (X4)", "doc": "copies exactly `size` words cursor -> registers, frame"},
        {"name": "vm_arm_set_state", "bound": True, "fn": "vm.rs Machine::execute arm Instruction::SetState (X4)", "doc": "copies exactly `size` words registers -> cursor cell, frame"},
        {"name": "vm_arm_push_pop_state_pos", "bound": False, "fn": "vm.rs Machine::execute arms PushStatePos / PopStatePos (X4)", "doc": "full domain: only the cursor moves, by the operand"},
        {"name": "vm_arm_delay_equals_wasm", "bound": True, "fn": "vm.rs Machine::execute arm Instruction::Delay (X4) vs wasm.rs state_delay_host", "doc": "same words, bit-equal result, frame on the stack"},
    ],
}
RUNTIME_C12 = {
    "unit": "runtime",
    "subst_quick": {"RING_N": 4, "RING_N1": 5},
    "subst_thorough": {"RING_N": 4, "RING_N1": 5},
    "bound_note": "slot map populated with 2-3 objects (reference counts and choice of operation fully symbolic)",
    "harnesses": [
        {"name": "heap_retain_contract", "bound": True, "fn": "heap.rs heap_retain on the real slotmap"},
        {"name": "heap_release_contract", "bound": True, "fn": "heap.rs heap_release / heap_release_closure on the real slotmap"},
        {"name": "heap_dangling_handle_is_inert", "bound": True, "fn": "heap.rs all three + slotmap key versioning"},
        {"name": "heap_stale_handle_after_empty", "bound": True, "fn": "heap.rs: a released handle stays dead across an empty storage"},
        {"name": "slotmap_model_validation", "bound": True, "fn": "slotmap::SlotMap::{insert,get_mut,remove} vs the trusted Verus model"},
    ],
}
PROPS["C05"] = {
    "bounded_checks": [
        {"name": "layout", "searcher": "layout", "clause": "compile-time half as a whole (the part no contract composes): after a hot swap to the same program minus one output-neutral stateful call, the cells that remain continue from their values; stateful calls inside if / match branches", "bound": "6 hand-written program pairs + 9 branch / match programs, each run in a child process on the real VM"},
        {"name": "exchange", "searcher": "exchange", "clause": "last sentence of C05 seen through the outputs: VM and WASM agree on programs that need many state exchange buffers, and on closures with own state that call other closures", "bound": "14 generated programs x 4 samples on both real back ends"},
    ],
    "verus_units": ["state_tree", "delay_history", "wasm_state", "mirgen_state", "backend_state", "vm_storage"],
    "replay": "layout",
    "replay_units": ["mirgen_state"],
    "replay_by_unit": {"backend_state": ["exchange", "layout"], "wasm_state": ["exchange"], "vm_storage": ["layout", "exchange"], "mirgen_state": ["layout", "exchange"]},
    "kani_units": [RUNTIME_C05],
    "floor": {"obligations": 75},
    "trusted_base": ST_TRUSTED + [
        "unit mirgen_state (compile-time half): ContextData, mir::Instruction, StateTreeSkeleton cut verbatim (type parameter instantiated with an opaque StateType; sizes uninterpreted: only sums matter); Context REDUCED to the current ContextData (`self.get_ctxdata()` -> `self.data`), the function table and a ghost log of the emitted instructions (push_inst / block push modelled as appends); consume_and_insert_pushoffset, emit_fncall cut verbatim; the `mem` arm of make_uniop_intrinsic, the literal arm of try_make_delay, the Feed arm of eval_expr (rule X4) and the PopStateOffset epilogue (rule X5: statement range as function); ASSUMED: the induction hypothesis for eval_expr / eval_args (sub-evaluations keep the invariant for the cells they return and only append instructions), vx_add_nowrap for push_sum (bounded by the layout size, `fits`), 64-bit usize, opaque AST helpers (parse of the delay literal, unzip, Value::State)",
        "unit backend_state: the arms PushStateOffset / PopStateOffset / GetState / Delay / Mem / ReturnFeed of ByteCodeGenerator::emit_instruction and of WasmGenerator::translate_instruction cut verbatim (rule X4); vm::Instruction, SelfEvalMode, Config, word_size_for_type cut verbatim; TRUSTED reduced models: intx::U24 (value + checked conversion), u8::try_from(usize), FuncProto (delay_sizes, bytecodes), VStack / find (register allocation, no contract), wasm_encoder::Instruction (8 variants) / MemArg / Function (ghost log of appended instructions), RuntimeFunctionIndices (6 indices), MemoryLayout (alloc_offset), WasmGenerator (5 fields), emit_value_load* (append an uninterpreted load sequence, change nothing else); `bytecodes_dst.unwrap_or_else(|| funcproto.bytecodes.as_mut())` of the ReturnFeed arm is dropped (the destination vector is a parameter); requires: offset < 2^24 (the code panics otherwise), < 256 delays per function (dito), word size <= 0x7fff and alloc_offset < 2^30 (u32 arithmetic of the allocator not to wrap)",
        "unit vm_storage: the CallCls arm of Machine::execute (rule X4; `self.call_function(.., move |machine| machine.execute(pos_of_f, Some(cls_i)))` is replaced by a helper that records ONE interpreter run on (pos_of_f, cls) with the context stack it sees and is ASSUMED to leave that stack as it found it); StateStorage::{resize, push_pos, pop_pos}, StateStorageStack::{push, pop}, Machine::execute_idx cut verbatim (the `(_name, func)` destructuring of the table entry becomes `.1`), the two sizing statements of Closure::new cut as a function (rule X5); TRUSTED: Vec::resize (helper vx_resize_u64), intx::U24 -> u64, StateStorage::default, reduced FuncProto / Program / Machine (the interpreter loop `execute` abstract: ghost record of the entry, ASSUMED not to resize the global storage)", "unit wasm_state, closure state contexts: closure_state_push_host / closure_state_pop_host and StateStorage::with_size cut (rule X1: `mut caller: Caller<RuntimeState>` -> `state: &mut RuntimeState`), rules N2 / N11 / N27 (`M.entry(K).or_insert_with(|| E);` -> `if !M.contains_key(&K) { M.insert(K, E); }`; `if let Some(X) = M.get_mut(&K) { BODY }` -> remove / BODY / insert); TRUSTED reduced RuntimeState (global_state, closure_states, state_stack), vstd HashMap / Vec specifications; get_current_state (returns `&mut`: which storage is active) is not cut", "unit wasm_state (Verus, UNBOUNDED in the number of state words): state_push_host / state_pop_host / state_mem_host / state_delay_host of wasm.rs cut with rule X1 (as per-cut rewrites); f64::from_bits / to_bits uninterpreted; the expression `time.clamp(0.0, (len-1) as f64) as u64` is replaced by the helper vx_delay_samples whose range fact `<= len-1` is ASSUMED in Verus and DISCHARGED full-domain by the Kani harness delay_samples_in_range; std specifications added for i64::unsigned_abs and Result::unwrap_or",
        "Kani harness crate: real ringbuffer.rs compiled unchanged (#[path]); StateStorage of vm.rs and StateStorage + state_*_host of wasm.rs cut verbatim (rule X1 for the host functions)",
        "Vec::resize is stubbed by a panicking function in the WASM harnesses: lazy growth is proved unreachable inside a layout-sized storage",
        "the VM instruction arms GetState / SetState / PushStatePos / PopStatePos / Delay / Mem are cut verbatim out of Machine::execute (rule X4: match arm re-headed as a method) together with get_stack / get_stack_range / set_stack / set_stack_range / set_vec_range / to_value, over a REDUCED Machine (fields stack, base_pointer, global_states, delaysizes_pos_stack, one FuncProto with delay_sizes; get_current_state reduced to the global storage, get_fnproto to that one prototype). the Delay arm takes the length from the table entry the instruction names (finding F5, repaired; harness with a two-entry table and a symbolic index)",
    ],
    "assumptions": [
        "Kani units: the number of state words is bounded as stated per harness; everything else is full-domain symbolic",
        "the cursor and sizes passed at run time are those of the layout (compiler half of C05, not covered)",
    ],
    "not_covered": [
        "compiler half, the part that is NOT under contract: the induction hypothesis of unit mirgen_state is assumed for the recursive calls of eval_expr and for eval_args as a whole (its per-argument closure eval_arg_one is proved, the map / collect / flat_map around it is not); of eval_expr's arms the ones under contract are Feed, Then, If, Let, LetRec, Assign, ArrayAccess (+ eval_block, eval_assign, the mem / delay carriers, emit_fncall and the match pieces) -- Apply (380 lines), Lambda, Proj, FieldAccess, ArrayLiteral, the aggregate allocators and Match's dispatch are not; the threading arms are proved for the SUM half of the invariant only (no cell lost, none counted twice): that `[a, b].concat()` lists the cells in EVALUATION order is not expressible through the branch-merging `if` / `match` arms and stays with the layout replay; the composition of the `match` bookkeeping pieces inside eval_union_match / eval_match / compile_decision_tree (the 15 pieces themselves -- arm start, arm end, padding, for arms and default arm of all three -- are under contract by rule X5; that the surrounding closures call them in this order for every arm is read off and replayed by `ffi_replay branch-state`), the copy of the returned list into Function::state_skeleton; of the two back-end translators only the arms of the six state instructions are under contract (unit backend_state), not the dispatch around them (that each MIR instruction reaches its arm, block order, jumps) nor the import-index table of wasmgen (that `rt.state_push` is the index of the import named state_push)",
        "state_get_host / state_set_host (copy through wasmtime linear memory)",
    ],
    "explanation": "C05 closure calls on the VM (arm CallCls, unit vm_storage): the call runs the function of the closure the register names, as that closure, with the closure on top of the state-context stack, and the stack is as before when the call is over. C05 storage sizing on the VM (unit vm_storage): an entry point with code runs on a global storage resized to exactly the total size of its published layout (words that exist before and after keep their values: hot swap), a closure's own storage is created zeroed with exactly the total size of the layout of ITS function and the cursor at the origin, cursor moves add / subtract the 24-bit operand, the context stack of closure calls is a plain stack; on the WASM side the size passed to closure_state_push is the total size of the layout of the resolved MIR function (get_mir_fn_state_size, emit_closure_state_push / pop in unit backend_state). C05 closure state contexts on the WASM host (unit wasm_state): a closure call makes the closure's storage the active context, creating it on the first call -- zeroed, sized from the closure's layout, cursor at the origin -- and leaving every existing storage untouched; a closure return resets the cursor of the RETURNING closure only, pops the context and moves nothing else (the caller continues in the middle of its body). C05 back-end translation (unit backend_state): each of the six MIR state instructions becomes the VM instruction / the host call with exactly its operand (offset, cell size = word size of the type, delay length), the VM Delay instruction names the delay-table entry that holds its own length (idx == old table length, table == old.push(max)), the feed cell is written with the size of the return type, and every WASM exchange buffer comes from the one static allocator (starts at the old alloc_offset, allocator advanced by max(size,1)*8: no overlap -- finding F14). C05 compile-time half (unit mirgen_state): generator invariant `cursor reached by the emitted code == push_sum` and `push_sum + pending move == total size of the cells returned so far`; every carrier that creates a cell keeps it AND emits the cell's instruction at exactly the cursor the returned layout (prefix sums in list order) assigns to that cell's own entry: emit_fncall (call of a stateful function: the callee's whole layout is one cell), the delay arm (arguments' cells first, then the delay), the mem arm, the Feed arm (`self`: read before the body, so its entry comes first -- finding F7, repaired); the If arm generates both branches from the same bookkeeping and merges them at a common cursor (finding F8, repaired); the three match implementations generate every arm from the cursor at the match moved past the cells of the earlier arms, flush the arm's pending move inside the arm and pad every arm to the end of all arms' cells (findings F9-F11, repaired; 15 extracted pieces, one shared contract per kind of piece); consume_and_insert_pushoffset emits the pending move exactly once; the function epilogue pops exactly push_sum, i.e. the cursor is back at the origin. C05 run-time half: (i) layout arithmetic (total_size, path_to_address = prefix sums, children tile the parent: lemma_addr_in_bounds, lemma_node_push) proved in Verus; (ii) each run-time primitive touches exactly the words of the cell at the cursor (Kani, bit-precise; for the WASM host functions additionally proved in Verus for a storage of ANY length: unit wasm_state -- cursor moves change only the cursor, mem swaps exactly the word at the cursor, delay performs exactly the one-step ring-buffer function on the cell's 2+len words, refused lengths change nothing, no lazy growth inside a layout-sized storage); (iii) VM and WASM host primitives perform the same transformation of the flat words (Kani relational harnesses); (iii') the VM instruction arms themselves (cut from Machine::execute) touch exactly their destination registers and the cell at the cursor, and the Mem / Delay arms agree bit for bit with the WASM host functions; (iv) k-step delay history lemma over the one-step spec (Verus unit delay_history: feeding x0,x1,.. and reading with delay d in [1,len-1] returns x[k-d], 0 before that).",
    "samples": [
        {"obligation": "path_to_address::ensures", "clause": "r == Some((addr_off(self,path), size(node_at(self,path)))) iff wf_path"},
        {"obligation": "vm_delay_one_step_spec", "clause": "res == words[pos+2+(w+len-d)%len]; words'[pos]=r; words'[pos+1]=(w+1)%len; words'[pos+2+w]=input; all other words unchanged"},
        {"obligation": "wasm_delay_equals_vm", "clause": "state_delay_host(...).to_bits() == Ringbuffer::process(...) and equal words"},
    ],
    "extraction_drops": ["rule X1 on state_{push,pop,delay,mem}_host: `mut caller: Caller<'_, RuntimeState>` -> `current: &mut StateStorage`; dropped the two statements fetching the active StateStorage",
                         "everything of vm.rs / wasm.rs that is not cut (Machine::execute, wasmtime plumbing)"],
}
PROPS["C12"] = {
    "bounded_checks": [
        {"name": "drop_shared", "searcher": "drop_shared", "clause": "what close_upvalues_by_idx retains per upvalue cell, drop_closure releases per cell (the glue between the per-cell visitors, which are under contract): a closed closure that is run and dropped leaves nothing alive", "bound": "14 hand-assembled bytecode programs: 1-4 upvalue cells capturing distinct / repeated closures, direct and heap-backed, 8 samples each"},
        {"name": "boxed", "searcher": "boxed", "clause": "steady state of live heap objects for programs that build boxed user-sum values per sample (the composition of compiler-inserted clone / release with the VM walkers)", "bound": "14 programs (boxed user sums, records and tuples with counted members, open closures in value- and unit-returning frames), 64 against 128 samples on the real VM"},
    ],
    "verus_units": ["heap", "usersum", "closures", "upvalues", "mirgen_rc"],
    "replay": "boxed",
    "replay_units": ["usersum"],
    "replay_by_unit": {"mirgen_rc": ["let_release", "boxed"], "upvalues": ["drop_shared"], "closures": ["boxed", "drop_shared"]},
    "kani_units": [RUNTIME_C12],
    "floor": {"obligations": 62},
    "trusted_base": [
        "unit closures, rule X4: the VM's reference-counting instruction arms CloneHeap / BoxClone / BoxRelease / BoxAlloc / MakeHeapClosure / Closure are cut verbatim out of Machine::execute and re-headed as methods (their local frame lists become `&mut Vec` parameters); get_stack / set_stack / get_stack_range are ABSTRACTED (the word read is unconstrained, a register write touches neither heap nor closures); get_as::<HeapIdx> / to_value (transmutes) as handle_of; try_get_heap_backed_closure / try_get_direct_closure cut verbatim and verified; heap_retain as the map transformer proved in unit heap; SlotMap::get_mut model; <[T]>::to_vec specification",
        "unit mirgen_rc (compiler side): insert_clone_recursively / insert_release_recursively of mirgen.rs cut verbatim (rule N7forenum for their `for (i, x) in v.iter().enumerate()` loops; `resolved != ty` on the slot-map key as vx_ne); TRUSTED model of the interned types (the six variants the inserters distinguish + Other; finite type trees and progress of alias resolution: axiom_rank); push_inst as a ghost log of the reference-count instructions by kind; mir::Instruction cut verbatim",
        "unit upvalues: the first filter_map closure of close_upvalues_by_idx and of drop_closure cut as functions (`upv.borrow_mut()` / `v.borrow()` on the shared Rc<RefCell<UpValue>> cell become a `&mut UpValue` / `&UpValue` parameter); Machine::get_open_upvalue (unsafe slice of the stack) as an abstract read of `size` words; UpValue / OpenUpValue cut verbatim",
        "unit usersum: model of the interned types (TypeNodeId::to_type/word_size, a `Type` enum with the five variants the walkers distinguish and `Other` for the rest; type trees are finite: axiom_rank), heap functions as callee contracts with a ghost operation log, Machine::get_as::<HeapIdx> (transmute) as handle_of, vx_find_usersum for the type_table lookup (`iter().find(.. matches! ..)`)",
        "release_usersum_recursive is verified for partial correctness only (exec_allows_no_decreases_clause): it follows handles into heap objects while freeing, termination depends on the heap being acyclic",
        "model of slotmap::SlotMap<DefaultKey, V> (finite map + ghost set of issued keys; get_mut / remove contracts) — third-party crate, validated bounded by the Kani harness slotmap_model_validation on the real slotmap",
        "vstd specifications of Vec and vec![0; n]",
        "unit closures: ASSUMED effect of Machine::drop_closure (recursive walk over Rc<RefCell<UpValue>> cells with filter_map closures capturing self: outside Verus) as an uninterpreted state transformer drop_post that keeps heap_wf; ASSUMED allocate_closure (fresh live open closure, heap untouched); heap_release as the map transformer proved in unit heap; Machine reduced to its `closures` and `heap` fields; get_as::<ClosureIdx> / to_value (transmutes) as closure_of / raw_of with closure_of(raw_of(c)) == c; std bool::then_some (eager argument); SlotMap model extended with get / insert / unsafe get_unchecked (requires a live key)",
    ],
    "assumptions": ["unit closures, arms: no reference count reaches u64::MAX (2^64 retains cannot occur); the heap is well formed on entry",
                    "unit closures, caller-side VM invariant (precondition, not proved): every frame-local heap closure wrapper is `[closure handle]` naming a live closure at the moment it is released (wrappers_ok), every frame-local plain closure is live when released (closures_live). Observation: release_heap_closure's `(!obj.data.is_empty()).then_some(.. obj.data[0] ..)` evaluates obj.data[0] eagerly, so the emptiness guard does not protect the index -- a wrapper with empty data would panic; no wrapper is ever created empty (allocate_heap_closure, proved)",
                    "data-structure invariant heap_wf (every live object has refcount >= 1 and size == data.len()) holds on entry; it is established by HeapObject::{new,with_data} and preserved by all three operations (proved)",
                    "heap_retain: refcount < u64::MAX (2^64 retains of one object cannot occur)"],
    "not_covered": [
        "WHERE the compiler calls the two inserters (that every duplication of a value is matched by one release on every path: the ~30 call sites in mirgen.rs) -- the three inserters (clone / release / close-closures) and the tuple and record arms of add_bind_pattern (every member of a destructured aggregate that holds counted references gets its clone_ops, whatever its sub-pattern and whether or not a record pattern names it) are under contract (unit mirgen_rc), every emitted instruction with the COMPONENT PATH it addresses; of the Let arm the initialisation of the local is under contract (let_local_init: a local initialised from a plain variable read of a counted type takes clone_ops of its own -- finding F16, repaired), the scope-exit release and what happens to the VALUE of the scope are not, and the latter is wrong on the current tree: known finding F15 (use after release; F16, F17 repaired); the rest of drop_closure and close_upvalues_by_idx (resolving the raw references to closures, the retain / recursive release loops over Rc<RefCell<UpValue>> cells: assumed transformer in unit closures) -- their per-cell visitors are under contract (unit upvalues)",
        "boundedness of live closures/objects over time: a whole-history property of generated programs", "the WASM runtime's heap host functions (runtime/wasm.rs box_* / usersum_* / closure_*): box_clone / box_release call the heap functions that are under contract, usersum_release_host and the closure_* hosts are documented no-ops on the pinned tree (boxed payloads of user sums are not released on that back end), and the host heap is private to the crate, so neither a contract nor a replay observes it; the VM arm CallIndirect (CloseHeapClosure + close_heap_upvalues are under contract in unit closures: exactly the closure the register names is closed, nothing is released; Return0 / Return are under contract in unit closures: both frame-local lists are released, once each, on both return instructions; BoxLoad / BoxStore: no reference count changes, the stored object keeps identity and size; CloneUserSum / ReleaseUserSum in unit usersum: the registers named by the instruction, read at the type the instruction's table index names, are what the walker gets)",
    ],
    "explanation": "C12: (compiler side, unit mirgen_rc) every reference-count instruction is recorded with the component of the root value it addresses (GetElement extends the path by its offset): insert_clone / insert_release / insert_close_closures emit exactly clone_ops / release_ops / close_ops(type, path) -- the right instruction on the right component, members in order; destructuring a tuple (rule N20) or a record (rules N24, N26: named fields in pattern order, then the counted fields the pattern does not name -- finding F17) gives EVERY counted member its own references, which is what the scope-exit release of the destructured copy returns; the two type-directed inserters emit, for a value of any type, exactly clone_ops(ty) resp. release_ops(ty) -- one BoxClone / BoxRelease per boxed component, one CloneUserSum / ReleaseUserSum per user-sum component, one CloneHeap / CloseHeapClosure per function-typed component, tuple and record fields in order, aliases resolved -- and lemma_release_matches_clone shows that what is released is, position by position, the counterpart of what is cloned (the function-typed counterpart is CloseHeapClosure, which is not an inverse: known finding F13); (upvalue cells, unit upvalues) the reference a closure holds on a captured closure lives in an upvalue cell; close_upvalues_by_idx's per-cell visitor closes the cell and yields EXACTLY the reference the closed cell holds (also for a cell a sibling closure closed before), drop_closure's per-cell visitor yields exactly that reference again: what is retained at close time is what is released at drop time, cell by cell (lemma_retain_release_pair); (VM instruction arms, cut from Machine::execute) CloneHeap takes one more reference on a heap closure wrapper TOGETHER with one on the closure it wraps (or one on a direct closure handle; nothing for any other word); BoxClone / BoxRelease move exactly one reference of exactly the named boxed object (retained_map / released_map; lemma_box_clone_release: a clone followed by a release restores the heap); BoxAlloc creates one fresh object with one reference and the requested number of words and touches nothing else; MakeHeapClosure / Closure record the fresh wrapper / open closure in the frame's release lists exactly once -- the lists release_heap_closures / release_open_closures walk at scope exit; (closures) at scope exit release_heap_closures releases every recorded wrapper exactly once, in order, dropping the wrapped closure exactly when it has not escaped (rel_all over rel_hc, relative to the assumed drop_closure transformer); release_open_closures drops exactly the still-open closures; allocate_heap_closure yields a fresh one-reference wrapper `[handle]` naming a fresh live open closure; get_closure's unchecked access is safe under key liveness. (usersum) the two type-directed walkers agree on WHERE the heap handles of a value are: `slots(ty, data)` is the layout function (boxed / type-alias word, tag-selected variant payload, tuple and record fields at prefix-sum offsets); clone_usersum_recursive retains exactly slots(ty,data), once each, in order; release_usersum_recursive releases every handle of slots(ty,data) (log monotone); heap-object clause: heap_retain / heap_release / heap_release_closure proved against the abstract map view (exact effect, frame, no arithmetic underflow, last release removes the object and the handle no longer resolves); balance lemma over the contracts (ghost history); the same contracts checked bit-precisely on the real slotmap by Kani with a bounded population.",
    "samples": [
        {"obligation": "heap_release::ensures", "clause": "rc==1 ==> storage' == storage.remove(idx) && !storage'.contains_key(idx)"},
        {"obligation": "lemma_balance", "clause": "run(Some(n), ops) == Some(n + retains(ops) - releases(ops)) while every prefix releases fewer than exist"},
    ],
    "extraction_drops": ["log::trace!/warn! statements (N4)", "derive(Debug, Clone) on HeapObject", "#[cfg(test)] module"],
}

PROPS["C11"] = {
    "bounded_checks": [
        {"name": "schedvm", "searcher": "schedvm", "clause": "every task runs exactly once at the sample equal to its time, before dsp -- whole programs on the real VM with the real offline driver, rendered in one block and in blocks of 2 and 1 samples", "bound": "33 generated scheduler programs x up to 12 samples"},
        {"name": "sched", "searcher": "sched", "clause": "the same for the WASM scheduler handle driven as on_sample does", "bound": "1 434 task multisets of up to 4 tasks"},
    ],
    "verus_units": ["scheduler", "dsp_tick"],
    "replay_by_unit": {"dsp_tick": ["schedvm", "sched"]},
    "replay": ["sched", "schedvm"],
    "kani_units": [{
        "unit": "sched", "subst_quick": {}, "subst_thorough": {},
        "bound_note": "real std BinaryHeap with 3 tasks (times fully symbolic)",
        "harnesses": [
            {"name": "f64_to_u64_cast_truncates", "bound": False, "fn": "`f64 as u64` in SimpleScheduler::schedule_at / trampoline", "doc": "every f64 bit pattern: floor for 0<=x<2^64, 0 for negative/NaN, saturating"},
            {"name": "task_cmp_by_when_only", "bound": False, "fn": "scheduler.rs Task::{cmp,partial_cmp}", "doc": "full domain"},
            {"name": "binaryheap_model_validation", "bound": True, "fn": "std BinaryHeap<Reverse<Task>> vs the trusted Verus model", "doc": "peek = min when; pop removes exactly the peeked element"},
        ],
    }],
    "floor": {"obligations": 37},
    "trusted_base": [
        "unit dsp_tick: VmDspRuntime::run_dsp (driver.rs) and LocalBufferDriver::play (local_buffer.rs) cut verbatim, WasmDspRuntime::run_dsp (engine.rs) from its worker loop to the end of the dsp-result match (rule X5; the statements in front -- saving the allocation pointer, writing current_time into the runtime state -- and behind -- restoring the allocation pointer -- are not in the cut); rule N21 (every element of a vector of trait objects visited by index, `elem.on_sample(..)` -> vx_elem_on_sample(&mut vec, k, ..)), N22 (Option::map_or -> match); TRUSTED reduced models: Machine / WasmEngine (a ghost log of the calls they receive: Worker(k, time) for worker k's on_sample, Dsp for execute_idx / execute_dsp), the workers (trait objects; the scheduler's worker itself is unit scheduler), RuntimeData::run_dsp (one Tick(time) per call: dynamic dispatch to one of the two run_dsp above), Arc<AtomicU64> sample counter as a plain cell (single-threaded offline driver), output-cache copying (vx_top_n_f64, vx_store_output, vx_input_words, vx_output: no contract)",
        "model of std BinaryHeap<T> (multiset + designated top that is a maximum of Ord; peek shows it, pop removes exactly it, push inserts), std Reverse (flips the order), mpsc::Receiver::try_recv (single consumer, no concurrent sender: pops the head or reports empty; modelled with &mut self) -- heap model validated bounded by Kani on the real BinaryHeap",
        "derive(PartialOrd, Ord) on Time(pub u64) compares the field (OrdSpecImpl for Time is assumed)",
        "rule X3 (abstract `H: ExecClosure` handle whose execute_closure appends to a ghost log) for SchedulerAudioWorker::on_sample; rule X2 (the locked `SharedState` becomes a `&mut` parameter) for drain_due_tasks / set_current_time / the _mimium_schedule_at trampoline closure",
        "N3: `f64 as u64` / `f64 as i64` are uninterpreted in the Verus unit (their truncation semantics is the full-domain Kani harness f64_to_u64_cast_truncates)",
        "vstd Multiset / Seq axioms",
    ],
    "assumptions": [
        "driver protocol: PROVED for both run_dsp implementations and the offline driver (unit dsp_tick: every worker's on_sample once per tick, in order, with the tick's time, before dsp; the offline driver presents consecutive sample indices once each); the real-time back ends (cpal callback) and that the SAME time value reaches `now` inside dsp (current_time of the runtime state) are read off, not proved",
        "single-threaded use of the task channel during on_sample (the VM runs the audio worker and the scheduling closures on one thread)",
    ],
    "not_covered": [
        "closure retention across the FFI (resolve_closure, close_upvalues_by_idx, WASM closure memory): whether the closure handle still denotes the scheduled closure when it runs",
        "the VM FFI behind RuntimeHandle apart from execute_closure (get_arg_*, resolve_closure: raw-pointer casts and transmutes); the cpal real-time driver loop (csr / cpal back ends); hot swap in the middle of a run",
    ],
    "explanation": "C11 execution of a due task on the VM (vm_execute_closure, unit dsp_tick): the closure the handle denotes is run once, as a closure of its own function, and the reference the scheduler held is dropped once, afterwards. C11 tick protocol (unit dsp_tick): one run_dsp(t) makes every audio worker's on_sample(t, ..) call, in index order, once each, and only then runs dsp -- on the VM runtime and on the WASM runtime; LocalBufferDriver::play calls run_dsp with count, count+1, .. exactly once each and leaves the clock at count + times. C11: SimpleScheduler::schedule_at sends exactly one task (time = f64 argument truncated, closure = resolved handle); both refusal directions are proved (a received / scheduled task that is not in the future never returns normally: contract variants with `ensures false`); WasmSchedulerHandle::on_sample = set time, drain, execute each due closure once in order; Task order is by `when` only (proved); pop_task returns a due task of minimal time and removes exactly it; SchedulerAudioWorker::on_sample and WasmSchedulerHandle::drain_due_tasks execute/return exactly the due multiset in non-decreasing time and keep exactly the rest; the schedule trampoline inserts exactly one task and refuses non-future times; lemma_sample_step lifts the per-sample contract to 'each task runs exactly once, at the sample equal to its time' by induction on the sample index; VM and WASM satisfy the same per-sample contract.",
    "samples": [
        {"obligation": "SchedulerAudioWorker::on_sample::ensures", "clause": "exists ex: log' == log + closures_of(ex) && sorted_by_when(ex) && count(ex) == due part of (heap + inbox) && heap' == later part"},
        {"obligation": "lemma_sample_step", "clause": "none_overdue(p, now) && sample_step(..) ==> executed == tasks with when == now, none_overdue(next, now+1)"},
    ],
    "extraction_drops": ["rule X3 / X2 as listed; log::error! statements; SimpleScheduler, gen_interfaces, Default impls, into_wasm_plugin_fn_map's Arc/HashMap plumbing around the trampoline closure"],
}

PROPS["C20"] = {
    "bounded_checks": [
        {"name": "ffi", "searcher": "ffi_serde", "clause": "values through to_ffi_value / to_value AND the real bincode wrappers (covers the assumed wire model)", "bound": "11 358 generated values of depth <= 2"},
        {"name": "types", "searcher": "type_serde", "clause": "types and interpreter values through their hand-written serde pairs and real bincode (covers the assumed serde data model)", "bound": "32 types incl. empty aggregates + the value corpus above"},
    ],
    "verus_units": ["ffi_serde", "serde_enums"],
    "replay": "ffi_serde",
    "replay_by_unit": {"serde_enums": ["type_serde"]},
    "floor": {"obligations": 30},
    "trusted_base": [
        "unit serde_enums: Type::serialize / Value::serialize cut verbatim (only the generic header `fn serialize<S>(&self, serializer: S) -> Result<S::Ok, S::Error> where S: Serializer` is replaced by a header over the model types and `self` by a parameter), the local `enum Field` and `visit_enum` of both Deserialize impls cut out of the function bodies (rule X6: nested item), local helper structs hoisted (rule nhoist); enum Type, enum Value, PType, RecordTypeField, TypeSchemeId cut verbatim (Intermediate's payload replaced by an opaque type). TRUSTED model of the serde data model: a value of an externally tagged enum crosses as (variant index, encoded fields in order); Serializer::serialize_struct_variant / serialize_field / end / serialize_unit_variant build exactly that; EnumAccess::variant hands the visitor the variant of the local `Field` enum whose POSITION IN THE DECLARATION is the index (what serde's derived field_identifier visitor does with an integer identifier, which is what bincode sends; `field_ordinal` is generated mechanically from the declaration by rule nordinal) and a VariantAccess over the same fields; newtype_variant::<T>() yields a T whose fields (one for a plain type, all of them in declaration order for a derived struct: generated by rule nhoist) are the fields on the wire; unit_variant() succeeds only without fields",
        "unit serde_enums, ASSUMED: the encodings of the FIELD types by their own Serialize impls (derived: PType, RecordTypeField; interner keys TypeNodeId / ExprNodeId / Symbol; Vec, Box, f64, u64, tuples, Option from serde itself) are injective (axiom_enc_injective), i.e. those types round-trip; a string identifier (self-describing formats) is not modelled: `rename_all` and the names list passed to deserialize_enum are not examined",
        "interner laws: Symbol::as_str and ToSymbol::to_symbol are inverse (axiom_intern_inverse / axiom_str_inverse); Symbol::as_str / to_symbol are external_body models",
        "opaque models of ExprNodeId, TypeNodeId, EvalStage, Environment<T>, ExtFunction, Rc<T>, RefCell<T> (payloads never inspected by the carriers)",
        "bincode model: serialize yields wire(x); deserialize accepts only an encoding of its result (third-party wire format, serde derive on FfiValue and the hand-written Serialize/Deserialize impls are NOT examined)",
        "N7: collect::<Result<Vec<_>,_>>() = Ok(all payloads) if no item is Err else the first Err (helper vx_collect_results verified); N4: format!(..) -> opaque String",
        "vstd specifications of Vec, String, Option/Result, iterator adapters (iter, into_iter, map, collect)",
    ],
    "assumptions": ["f64 equality is bit equality (the conversions move the f64, they never compute on it)"],
    "not_covered": [
        "types half beyond the two hand-written enum impls: the Serialize/Deserialize impls of TypeNodeId / ExprNodeId / Symbol (interner keys: they cross as keys and mean the same only inside one process image), the derived impls of the field types, and the bytes bincode produces (serde data model assumed as stated)",
        "bincode round trip deserialize(serialize(x)) == x for FfiValue (assumed shape of the wire model only)",
    ],
    "explanation": "C20 types half (unit serde_enums, also the hand-written serde pair of interpreter values): serialize writes exactly wire_of(x) = (position of the same-named identifier in the local Field enum, encoded fields in declaration order) and refuses the variants that have no identifier; visit_enum returns only a value whose wire_of is the wire it was handed; wire_of is injective (lemma_*_wire_injective, from the injectivity of the field encodings) -- so whatever an encoded type / value decodes to equals what was encoded (lemma_type_roundtrip / lemma_value_roundtrip). Indices are not hard-coded in the contract: renumbering both sides consistently keeps the proof. C20 value half: to_ffi_value refuses exactly the values that cannot cross (r.is_ok() == crossable(v)) and otherwise produces the structural encoding enc_rel; to_value is total and produces dec_rel; lemma_roundtrip: crossable(v) && enc_rel(v,f) && dec_rel(f,w) ==> val_eq(v,w) (numbers bit-identical, symbols via interner laws, arbitrary nesting, empty aggregates); the four (de)serialize wrappers compose the conversions with bincode and refuse when any argument cannot cross.",
    "samples": [
        {"obligation": "Value::to_ffi_value::ensures", "clause": "r.is_ok() == crossable(*self); Ok(f) ==> enc_rel(*self, f)"},
        {"obligation": "lemma_roundtrip", "clause": "crossable(v) && enc_rel(v,f) && dec_rel(f,w) ==> val_eq(v,w)"},
    ],
    "extraction_drops": ["derive(Debug, Clone, Serialize, Deserialize) on FfiValue / derive(Clone, Debug) on Value", "#[cfg(test)] module"],
}

PROPS["C13"] = {
    "bounded_checks": [
        {"name": "parser", "searcher": "parser", "clause": "tiling + trivia attachment on whole strings through the real tokenize / preparse (covers the assumed lexer contract)", "bound": "all strings up to length 4 over a 24-symbol alphabet incl. multi-byte characters, BOM, CR/LF (346 200 strings); thorough tier: length 5 (8 308 824 strings)"},
        {"name": "cst", "searcher": "cst", "clause": "the concrete syntax tree contains every non-trivia token exactly once in order (covers what partial correctness of the parser unit leaves: termination on these inputs)", "bound": "73 653 token strings"},
    ],
    "verus_units": ["parser_tokens", "preparse", "cst_parser"],
    "replay": ["parser", "cst"],
    "frames": [
        {"name": "Parser cursor and leaves are written only by new/bump",
         "file": "crates/lib/mimium-lang/src/compiler/parser/cst_parser.rs",
         "impls": ["Parser", "NodeBuilder for Parser"], "receivers": ["self", "this", "p", "parser"],
         "fields": ["current", "builder", "preparsed", "tokens"], "calls": [["builder", "add_token"]],
         "allowed": ["new", "bump"], "must_exist": ["bump", "parse", "parse_statement", "expect"],
         "searcher": "cst"},
    ],
    "floor": {"obligations": 115},
    "trusted_base": [
        "ASSUMED contract of the chumsky lexer built in tokenize (vx_chumsky_lex): it always yields a token vector and the spans it hands out tile the input (third-party combinators: outside any verifier's reach); model of chumsky MapExtra::span / SimpleSpan",
        "split_projection_float_tokens: the emission half of its per-token closure is under contract (split_emit, rule X5: what is appended for a token -- the token or Int `.` Int -- tiles exactly the token's span, given head + 1 + tail == length); ASSUMED for the rest (the for_each over the tokens, `last().filter(..).and_then(..)`, str::split_once / chars(): outside Verus): re-splitting a float after a dot keeps the tiling, and the two lengths computed from `split_once('.')` add up to the token's length",
        "derive(PartialEq) on the field-less enum TokenKind is structural equality",
        "N10 helpers vx_map_append / vx_map_extend: HashMap::entry(k).or_default().append(&mut v) / .extend(v) append to the list under k (created empty if absent), leave other entries untouched",
        "green.rs is under contract (no builder model any more). Its trusted parts: model of slotmap::SlotMap<GreenNodeId, V> (finite map + ghost insertion stamp; insert returns a fresh key, never touches stored values; Index panics on a dead key); T-helpers with assumed std meaning vx_last_mut (Vec::last_mut), vx_drain_from (Vec::drain(pos..).collect()), vx_width_sum (the width bookkeeping of alloc_internal is dropped: widths play no part in the leaf sequence); byte length of a &str fits in usize",
        "unit cst_parser: every `&mut self` method of `impl Parser` (the ~50 recursive-descent parse_* methods, bump, expect, expects, expect_all, parse) is verified against one uniform contract after rule N13 (the body of NodeBuilder::emit_node, checked literally on every run, is inlined at each call and its FnOnce(&mut Self) argument beta-reduced). PARTIAL correctness only for the parse_* methods (exec_allows_no_decreases_clause: termination of the recursive descent is property C04's concern, not the tree clause); Parser::parse's own loop is proved terminating",
        "unit cst_parser, ABSTRACTED (no assumption made): the `&self` lookahead helpers (peek_ahead, has_trailing_linebreak, is_tuple_expr, ... : external_body with no postcondition; Rust's `&self` gives the frame) and two lookahead expressions inside parse_type / parse_type_tuple_or_paren (a `for` loop and a `find_map` closure that read through `&self` and count parentheses in a local) whose results are left unconstrained; the hidden text is covered by the frame scan `Parser cursor and leaves are written only by new/bump`",
        "unit cst_parser, ASSUMED: vx_add_nowrap (rule nowrap:self.current) -- `self.current += ..` in bump does not wrap (each increment is one executed bump; 2^64 of them cannot occur); ParserError constructors and format! are opaque (message text is not part of any contract); `<[T]>::contains` has no postcondition",
        "vstd specifications of Vec, HashMap<usize,_>, Option, str::len",
    ],
    "assumptions": ["the replace_range rule on tokenize: the statements that build and run the chumsky lexer are replaced by one call of the assumed lexer contract"],
    "not_covered": [
        "the chumsky lexer itself and split_projection_float_tokens (assumed contracts above); character-boundary clause of the tiling (follows from the lexer assumption only)",
        "termination of the recursive-descent methods (partial correctness only); red.rs (positions over the green tree); the lowering of the tree to the AST (lower.rs)",
        "file-leading trivia up to the last line break before the first syntax token are attached to no token: known finding F2 (the proved postcondition excludes exactly this block)",
    ],
    "explanation": "C13 first-party part: the two closures of tokenize turn a lexer span into a token covering exactly that span; given the assumed lexer/splitter contracts tokenize returns a lossless stream (tiling + zero-length Eof at the end); preparse: token_indices are exactly the syntax tokens in order, and there is a one-to-one correspondence (owner) between attached trivia indices and list positions of the two trivia maps -- nothing but trivia is attached, nothing twice, and every trivia token is attached when a syntax token exists, except the F2 block; green.rs tree builder (real code): the leaf sequence (token indices depth-first, left to right, over the slot-map arena) is an abstract view of GreenTreeBuilder; add_token appends one leaf (or loses the token when no node is open: explicit in the contract), start_node / start_node_at / finish_node keep the sequence, the node returned by the last finish_node carries exactly that sequence; Parser::bump appends exactly token_indices[current] to the tree leaves and advances by one (at the end of input it only moves the cursor); peek / check / is_at_end / expect / expects / expect_all are specified against the syntax-token sequence; EVERY recursive-descent method parse_* is verified (unit cst_parser, 95 functions) against the uniform contract pin -> pout: it keeps the leaf invariant (tree leaves == syntax tokens consumed so far, in order), never moves the cursor backwards, never changes a token span or the preparse tables (only re-marks Ident kinds), closes every node it opens, and its start_node_at markers stay inside the innermost open node; Parser::parse (main loop with the no-progress recovery bump) terminates and returns a root node whose leaves in the returned arena are exactly the syntax tokens, once each, in source order (node_leaves(arena, root) == token_indices) -- no assumption about parse_statement is left.",
    "samples": [
        {"obligation": "preparse::ensures", "clause": "exists owner: owner_ok(tokens, leading, trailing, owner, n_syntax) && coverage minus dropped_upto"},
        {"obligation": "error_token_of_span::ensures", "clause": "r.start == span.start && r.start + r.length == span.end"},
        {"obligation": "tokenize::ensures", "clause": "lossless(r@, source.len())"},
    ],
    "extraction_drops": ["tokenize: the chumsky lexer construction/run (replace_range) and eprintln! diagnostics", "Display impls, get_* accessors of PreParsedTokens, #[cfg(test)]"],
}

PROPS["C17"] = {
    "bounded_checks": [
        {"name": "privacy", "searcher": "privacy", "clause": "whole-pipeline privacy / resolution on programs with nested modules, use, multi-import, wildcard import, re-export", "bound": "33 hand-written programs with the expected accept / reject verdict"},
    ],
    "verus_units": ["resolve_names", "use_tables", "resolve_walk"],
    "replay": "privacy",
    "floor": {"obligations": 34},
    "trusted_base": [
        "mangling model: `mangle`/`unmangle` uninterpreted with unmangle(mangle(p)) == p and mangle([s]) == s ASSUMED (a `$` inside a user identifier would break it: that is property C16's concern); helpers vx_mangle / vx_mangle2 / extract_path_from_mangled / vx_split_mangled stand for the `as_str()/join(\"$\")/split('$')/format!/to_symbol` string code",
        "is_locally_bound is PROVED (rule N18 turns `iter().rev().any(..)` into the reverse index loop it denotes); the module-relative chain of convert_var `(1..=n).rev().map(..).find(..)` is PROVED as the function vx_find_relative (rule X5 cuts the expression, rule N19 turns it into the downward loop it denotes: the innermost enclosing module that defines the name wins); ASSUMED contracts: vx_is_op_intrinsic (slice pattern + string tests for the reserved operator namespace)",
        "derived PartialEq/Eq/Hash on Symbol(usize): structural, lawful hash key; Location / ExprNodeId opaque; `Expr` modelled by its `Var` variant with `var_of(into_id(Var(s))) == s`",
        "unit resolve_walk: the Let / LetRec / Lambda arms of convert_expr (rule X4; `OPT.map(|t| ..)` with a captured `&mut` desugared by N16 into a match); `Expr` modelled by these three variants, Pattern opaque with an uninterpreted set of bound names; push_scope / pop_scope / bind_local / bind_pattern_locals as scope-stack transformers (ASSUMED: 3-line functions over Vec<HashSet>); find_pattern_module_context / module_context_map.get as uninterpreted lookups; ASSUMED induction hypothesis + ghost call record for the recursive convert_expr",
        "unit use_tables, rule X4 (match arm re-headed as a function: pattern bindings and free variables become parameters, `continue` -> `return None` justified by the literal `if let Some(stmts) = stmts { result.extend(stmts); }` after the match, checked on every run); in the fn arm the statements building the function type and the lambda are replaced by opaque values; `Statement` modelled by its LetRec variant; is_reserved_type_param_name uninterpreted",
        "unit use_tables: mangle_qualified_path ASSUMED to be the mangling of its segments; string helpers vx_mangle_push / vx_join / vx_sym_to_string / vx_string_to_symbol stand for the join/format/as_str/to_symbol code under the interner law; TypeNodeId / TypeDeclInfo opaque",
        "std specifications added: Option::<&T>::copied, <[T]>::to_vec (only used at the Copy type Symbol), vx_extend_copied; vstd specifications of HashMap/HashSet/Vec/slices (starts_with, last, range indexing)",
    ],
    "assumptions": ["stmts_from_program_with_prefix as a whole (its statement loop, module recursion, include / external-module loading) is not under contract: its three declaration arms and process_use_statement are (unit use_tables, rule X4)"],
    "not_covered": [
        "stmts_from_program_with_prefix: six arms are under contract (FnDefinition, TypeAlias, TypeDeclaration, UseStatement via process_use_statement, ModuleDefinition: the nested list is processed once under prefix + [name]; GlobalStatement: every binder of a module-level statement is filed under the prefix) -- the dispatch loop itself, the Import arm, the part of the UseStatement arm that loads an external module file, the parser lowering that produces ProgramStatement, and type-level privacy in typing.rs are not",
        "convert_expr apart from its Let / LetRec / Lambda / Match arms (those four are under contract, unit resolve_walk, relative to the induction hypothesis that a recursive conversion restores module context and scopes; the other ~24 arms, which only recurse, are not) and pass 1 (collect_defined_names)",
        "'every accepted reference resolves to the unique definition its module path denotes': only the resolved-path/alias-target relation of convert_qualified_var and resolve_qualified_path is proved",
    ],
    "explanation": "C17 resolution pass: is_within_module_hierarchy is exactly path-prefix (segment by segment) of the owning module in the current module; resolve_alias_chain terminates and returns a member of the alias chain; resolve_through_wildcards never yields a member whose visibility entry says private; resolve_qualified_path returns the written or module-relative path whose mangled name it returns; convert_qualified_var and convert_var report PrivateMemberAccess for every private member reached from outside its module hierarchy through a qualified path, a use alias, a multi-import, a re-export chain, a wildcard or module-relative resolution, and local bindings shadow imports (is_locally_bound proved); module-relative resolution picks the innermost enclosing module that defines the name (proved). Unit resolve_walk: `let` resolves its right-hand side in the module of the definition (module-level let) or else in the enclosing one, and the REST of the chain in the enclosing module context with the pattern's names bound in a new scope (finding F12: the module context used to leak into the rest of the file; repaired); `letrec` binds the function's own name for body and continuation and resolves the body in the function's module; a lambda binds every parameter in a new innermost scope; all three restore context and scopes. Unit use_tables (ast/program.rs): a `use` statement writes only the alias / visibility / wildcard tables (frame); a non-public `use` (single or multi-import) never changes any visibility entry; `pub use` adds exactly the entries `<current module>::<alias> -> public` and keeps every other entry -- in particular it never marks its target public; every alias entry written names the written path or that path relative to the current module (resolve_qualified_path); a wildcard import records exactly one base name and changes no table entry; mangle_qualified_name is prefix ++ [name] under the mangling model; the three declaration arms of stmts_from_program_with_prefix (fn / type alias / type declaration, cut as functions by rule X4) file the visibility entry under mangle(prefix ++ [name]) with value `visibility == Public`, record the module context, touch no alias entry, and the function arm emits a definition named exactly that mangled name.",
    "samples": [
        {"obligation": "process_use_statement::ensures", "clause": "vis_after(old.visibility_map, new.visibility_map, public, prefix, aliases) && alias_after(..) && frame_ok"},
        {"obligation": "convert_qualified_var::ensures", "clause": "is_private(mangle(rp)) && !within_hierarchy(ctx, rp) ==> has_private_error(errors', rp); same for the alias-chain target (re-export route)"},
        {"obligation": "resolve_alias_chain::ensures", "clause": "exists n: r == alias_iter(use_alias_map, symbol, n); decreases |keys \\ visited|"},
    ],
    "extraction_drops": ["ModuleInfo fields type_declarations / type_aliases (not used by the pass)", "string code replaced by the mangling model as listed", "Error: derive(Debug, Clone, Error), ReportableError impl"],
}


def is_trusted_cut(unit, cut):
    """cuts whose body is external_body (contract assumed) — no canary expected"""
    return unit == "state_tree" and cut.name.endswith("::eq")
