"""Frame conditions on the real source, checked by a token scan (NOT by Verus / Kani).

A contract proved for one method of a type (`Parser::bump` keeps the leaf invariant) carries to the
whole type only if no other code writes the fields the invariant talks about.  Where the other
methods are outside the verifier (closures taking `&mut Self`), this module establishes the frame
syntactically: inside the listed `impl` blocks of one file, every write to the protected fields
and every call of a protected method occurs in an allowed method.

A broken frame is never an alarm by itself (a new, perfectly correct helper that also advances the
cursor would break it): it makes the unit UNDECIDED, and only a concrete failing input found on the
real code by the replay search turns it into a violation.
"""
import os

from .cut import SourceFile, _impl_tail, LostAnchor
from .rustlex import line_of

ASSIGN = {"=", "+=", "-=", "*=", "/=", "%=", "^=", "&=", "|=", "<<=", ">>="}


def _methods(sf, impl_names):
    sq = lambda s: "".join(s.split())
    out = []
    for it in sf.items:
        if it.kind == "impl" and not it.cfg_test and sq(_impl_tail(it.header)) in impl_names:
            for ch in it.children:
                if ch.kind == "fn" and ch.body_open >= 0:
                    out.append(ch)
    return out


def scan(frame, repo):
    """frame: dict(name, file, impls=[impl tails], receivers=[self,this], fields=[..], calls=[(field, method)],
                   allowed=[method names], must_exist=[method names])
    returns dict(name, status ok|broken|lost, sites=[..], scanned=int)"""
    path = os.path.join(repo, frame["file"])
    res = {"name": frame["name"], "status": "ok", "sites": [], "scanned": 0, "file": frame["file"]}
    try:
        sf = SourceFile(path)
        meths = _methods(sf, set("".join(i.split()) for i in frame["impls"]))
    except (OSError, LostAnchor, Exception) as e:  # noqa: BLE001
        res["status"] = "lost"
        res["detail"] = f"{type(e).__name__}: {e}"
        return res
    names = {m.name for m in meths}
    missing = [m for m in frame.get("must_exist", []) if m not in names]
    if missing or not meths:
        res["status"] = "lost"
        res["detail"] = f"methods {missing} not found in impl {frame['impls']}"
        return res
    recv = set(frame.get("receivers", ["self", "this"]))
    fields = set(frame.get("fields", []))
    calls = set(tuple(c) for c in frame.get("calls", []))
    toks = sf.toks
    for m in meths:
        res["scanned"] += 1
        if m.name in frame["allowed"]:
            continue
        lo, hi = m.body_open, toks[m.body_open].mate
        i = lo
        while i < hi:
            t = toks[i]
            # receiver . field ...
            if t.kind == "ident" and t.text in recv and i + 2 < hi and toks[i + 1].text == "." \
                    and toks[i + 2].kind == "ident" and toks[i + 2].text in fields:
                f = toks[i + 2].text
                nxt = toks[i + 3] if i + 3 < hi else None
                prev = toks[i - 1] if i > 0 else None
                prev2 = toks[i - 2] if i > 1 else None
                why = None
                if nxt is not None and nxt.kind == "punct" and nxt.text in ASSIGN:
                    why = f"`{t.text}.{f} {nxt.text}`"
                elif prev is not None and prev.text == "mut" and prev2 is not None and prev2.text == "&":
                    why = f"`&mut {t.text}.{f}`"
                elif nxt is not None and nxt.text == "." and i + 4 < hi and (f, toks[i + 4].text) in calls:
                    why = f"`{t.text}.{f}.{toks[i + 4].text}(..)`"
                if why:
                    res["sites"].append({"method": m.name, "line": line_of(sf.src, t.start), "what": why})
            # * receiver = ...   (whole-struct overwrite)
            if t.text == "*" and i + 2 < hi and toks[i + 1].kind == "ident" and toks[i + 1].text in recv \
                    and toks[i + 2].kind == "punct" and toks[i + 2].text == "=":
                res["sites"].append({"method": m.name, "line": line_of(sf.src, t.start), "what": f"`*{toks[i + 1].text} =`"})
            i += 1
    if res["sites"]:
        res["status"] = "broken"
        s = res["sites"][0]
        res["detail"] = f"{s['what']} in {frame['impls'][0]}::{s['method']} (line {s['line']}) outside {frame['allowed']}"
    return res


def run_frames(cfg, repo):
    return [scan(f, repo) for f in cfg.get("frames", [])]
