"""Kani units: generate the harness crate from its template (real files via #[path], verbatim cuts,
rule X1), run `cargo kani`, classify per harness."""
import os
import re
import shutil
import subprocess
import time

from .cut import SourceFile, LostAnchor, sha
from .rustlex import LexError

X1_PARAM = re.compile(r"mut\s+caller\s*:\s*Caller<'_,\s*RuntimeState>")
X1_PREFIX = re.compile(r"let\s+state\s*=\s*caller\.data_mut\(\);\s*let\s+current\s*=\s*state\.get_current_state\(\);")


def generate(unit, here, out, repo, subst, instance=None):
    """returns (crate_dir, files[list of functions_under_contract dicts])"""
    src_dir = os.path.join(here, "kani", unit)
    dst = os.path.join(out, "kani", instance or unit)
    if os.path.exists(dst):
        shutil.rmtree(dst, ignore_errors=True)
    os.makedirs(os.path.join(dst, "src"))
    files = []
    cache = {}

    def sf(path):
        p = os.path.join(repo, path)
        if p not in cache:
            if not os.path.exists(p):
                raise LostAnchor(f"missing file {p}")
            cache[p] = SourceFile(p)
        return cache[p]

    for root, _, names in os.walk(src_dir):
        for nm in names:
            sp = os.path.join(root, nm)
            rel = os.path.relpath(sp, src_dir)
            txt = open(sp).read()
            txt = txt.replace("@REPO@", repo)
            for k, v in subst.items():
                txt = txt.replace("@" + k + "@", str(v))
            lines = []
            for ln in txt.split("\n"):
                ma = re.match(r"\s*//@KCUT_ARM (\S+) :: arm (.*?) as (\w+)(\(.*\)(?:\s*->\s*.*?)?) in (fn .*|method .*)$", ln)
                if ma:
                    # rule X4: a match arm cut verbatim and re-headed as a function
                    f = sf(ma.group(1))
                    it = f.find(ma.group(5).strip())
                    text, cs, ce = f.arm_as_fn(it, ma.group(2).strip(), ma.group(3), ma.group(4))
                    from .rustlex import line_of
                    l0, l1 = line_of(f.src, cs), line_of(f.src, ce)
                    raw = f.src[cs:ce]
                    lines.append(f"// ---- vx cut {ma.group(1)} :: arm {ma.group(2)} of {ma.group(5)} (lines {l0}-{l1}, sha256 {sha(raw)[:16]}) ----")
                    lines.append(text)
                    lines.append("// ---- vx end ----")
                    files.append({"unit": "kani/" + unit, "item": f"arm {ma.group(2).strip()} of {ma.group(5).strip()}", "file": ma.group(1),
                                  "lines": [l0, l1], "sha256": sha(raw),
                                  "extraction": ["X4: match arm body verbatim, re-headed as `fn " + ma.group(3) + ma.group(4) + "`"]})
                    continue
                m = re.match(r"\s*//@KCUT(_X1)? (\S+) :: (.*)$", ln)
                if not m:
                    lines.append(ln)
                    continue
                f = sf(m.group(2))
                it = f.find(m.group(3).strip())
                raw = f.text(it)
                s, e, l0, l1 = f.span(it)
                dropped = []
                text = raw
                if m.group(1):
                    if len(X1_PARAM.findall(text)) != 1 or len(X1_PREFIX.findall(text)) != 1:
                        raise LostAnchor(f"X1 prefix not found literally in {m.group(3)}")
                    text = X1_PARAM.sub("current: &mut StateStorage", text)
                    text = X1_PREFIX.sub("", text)
                    dropped = ["X1: `mut caller: Caller<'_, RuntimeState>` -> `current: &mut StateStorage`; "
                               "dropped `let state = caller.data_mut(); let current = state.get_current_state();`"]
                lines.append(f"// ---- vx cut {m.group(2)} :: {m.group(3)} (lines {l0}-{l1}, sha256 {sha(raw)[:16]}) ----")
                lines.append(text)
                lines.append("// ---- vx end ----")
                files.append({"unit": "kani/" + unit, "item": m.group(3).strip(), "file": m.group(2), "lines": [l0, l1],
                              "sha256": sha(raw), "extraction": dropped or ["verbatim"]})
            # #[path] includes
            for mm in re.finditer(r'#\[path = "(.*?)"\]', txt):
                p = mm.group(1)
                if os.path.exists(p):
                    files.append({"unit": "kani/" + unit, "item": "whole file (#[path] include, compiled unchanged)",
                                  "file": os.path.relpath(p, repo), "lines": [1, open(p).read().count("\n")],
                                  "sha256": sha(open(p).read()), "extraction": ["verbatim"]})
                else:
                    raise LostAnchor(f"missing file {p}")
            os.makedirs(os.path.dirname(os.path.join(dst, rel)), exist_ok=True)
            open(os.path.join(dst, rel), "w").write("\n".join(lines))
    lock = os.path.join(repo, "Cargo.lock")
    if os.path.exists(lock):
        shutil.copy(lock, os.path.join(dst, "Cargo.lock"))
    return dst, files


MEM_CAP_BYTES = 20 * 1024 ** 3


def _mem_cap():
    """address-space cap for the cargo-kani process tree: a CBMC instance that explodes on changed code must end as
    `undecided` (out of memory), not take the machine down (62 GB, no swap)"""
    import resource
    resource.setrlimit(resource.RLIMIT_AS, (MEM_CAP_BYTES, MEM_CAP_BYTES))


def run_kani(unit, harnesses, here, out, repo, subst, bound_note, instance=None, timeout=3000):
    """run all harnesses of a unit in one cargo-kani invocation; returns list of result dicts"""
    t0 = time.time()
    try:
        crate, files = generate(unit, here, out, repo, subst, instance)
    except (LostAnchor, LexError) as e:
        return [{"harness": f"{unit}::*", "status": "undecided", "reason": f"{type(e).__name__}: {e}", "checks": 0,
                 "cmd": "", "files": []}]
    tgt = os.path.join(out, "target-kani-" + (instance or unit))
    cmd = ["cargo", "kani", "-Z", "function-contracts", "-Z", "stubbing", "--output-format", "terse", "-j", "8"]
    for h in harnesses:
        cmd += ["--harness", h["name"]]
    env = dict(os.environ, CARGO_NET_OFFLINE="true", CARGO_TARGET_DIR=tgt)
    try:
        p = subprocess.run(cmd, cwd=crate, env=env, capture_output=True, text=True, timeout=timeout, preexec_fn=_mem_cap)
        outp = p.stdout + "\n" + p.stderr
    except subprocess.TimeoutExpired as e:
        outp = (e.stdout or b"").decode(errors="replace") if isinstance(e.stdout, bytes) else (e.stdout or "")
        return [{"harness": f"{unit}::*", "status": "undecided", "reason": "kani timeout", "checks": 0,
                 "cmd": " ".join(cmd), "files": files}]
    wall = time.time() - t0
    results = []
    # split per harness; with -j every line of a worker is introduced by "Thread N: "
    seen = {}
    cur = {}          # thread -> harness name
    active = None     # harness whose result block is being collected
    for ln in outp.split("\n"):
        m = re.match(r"(?:Thread (\d+): )?Checking harness (\S+?)\.\.\.", ln)
        if m:
            th = m.group(1) or "0"
            name = m.group(2).split("::")[-1]
            cur[th] = name
            seen.setdefault(name, "")
            active = name if m.group(1) is None else None
            continue
        m = re.match(r"Thread (\d+): ?(.*)$", ln)
        if m:
            active = cur.get(m.group(1))
            if active is not None:
                seen[active] += m.group(2) + "\n"
            continue
        if ln.startswith("Manual Harness Summary") or ln.startswith("Complete - "):
            active = None
            continue
        if active is not None:
            seen[active] += ln + "\n"
    compile_failed = "error: could not compile" in outp or re.search(r"^error(\[E\d+\])?:", outp, re.M) and "VERIFICATION" not in outp
    for h in harnesses:
        name = h["name"]
        r = {"harness": f"{unit}::{name}", "fn": h.get("fn"), "cmd": " ".join(cmd), "files": files if h is harnesses[0] else [],
             "checks": 0, "bound": h.get("bound") and bound_note, "solver_s": 0.0, "samples": []}
        ch = seen.get(name)
        if compile_failed or ch is None:
            r["status"] = "undecided"
            errl = [l for l in outp.split("\n") if l.startswith("error")][:3]
            r["reason"] = "harness crate does not compile against the current tree / no result: " + " | ".join(errl)[:300]
            r["output"] = outp[-3000:]
            results.append(r)
            continue
        mc = re.search(r"\*\* (\d+) of (\d+) failed", ch)
        if mc:
            r["checks"] = int(mc.group(2))
            nfail = int(mc.group(1))
        else:
            nfail = None
        mt = re.search(r"Verification Time: ([\d.]+)s", ch)
        if mt:
            r["solver_s"] = float(mt.group(1))
        if "VERIFICATION:- SUCCESSFUL" in ch:
            # covers must be satisfied (reachability / non-vacuity)
            mcov = re.search(r"(\d+) of (\d+) cover properties satisfied", ch)
            if mcov and mcov.group(1) != mcov.group(2):
                r["status"] = "undecided"
                r["reason"] = f"cover not satisfied ({mcov.group(1)}/{mcov.group(2)}): harness precondition may be vacuous"
            else:
                r["status"] = "ok"
                r["samples"] = [{"harness": name, "checks": r["checks"], "doc": h.get("doc", "")}]
        elif "VERIFICATION:- FAILED" in ch:
            fails = re.findall(r"Failed Checks: (.*)", ch)
            if any("unwinding assertion" in f for f in fails) or "CBMC failed" in ch or "out of memory" in ch.lower():
                r["status"] = "undecided"
                r["reason"] = "unwinding assertion / solver failure: " + "; ".join(fails)[:300]
            else:
                r["status"] = "violation"
                r["failed"] = fails
                r["output"] = ch[-4000:]
        else:
            r["status"] = "undecided"
            r["reason"] = "no verdict in kani output"
            r["output"] = ch[-2000:]
        results.append(r)
    if results:
        results[0]["wall_s"] = wall
    return results


def concrete_playback(instance, harness, out):
    """re-run one failed harness with concrete playback: returns the generated unit tests (source text)
    for the failing checks (cover tests dropped)"""
    crate = os.path.join(out, "kani", instance)
    tgt = os.path.join(out, "target-kani-" + instance)
    cmd = ["cargo", "kani", "-Z", "function-contracts", "-Z", "stubbing", "-Z", "concrete-playback",
           "--concrete-playback=print", "--output-format", "terse", "--harness", harness]
    env = dict(os.environ, CARGO_NET_OFFLINE="true", CARGO_TARGET_DIR=tgt)
    try:
        p = subprocess.run(cmd, cwd=crate, env=env, capture_output=True, text=True, timeout=1800, preexec_fn=_mem_cap)
    except subprocess.TimeoutExpired:
        return []
    tests = []
    for m in re.finditer(r"```\n(.*?)```", p.stdout, re.S):
        t = m.group(1)
        if "Check for `cover`" in t:
            continue
        tests.append(t)
    return tests


def native_playback(instance, unit, tests, here, out, repo, subst):
    """paste the playback tests next to the harnesses of a freshly generated crate and run them natively
    (`cargo kani playback`): returns (reproduced: bool, output tail)"""
    crate = os.path.join(out, "kani", instance)
    tgt = os.path.join(out, "target-kani-" + instance)
    if not os.path.isdir(crate):
        generate(unit, here, out, repo, subst, instance)
    # the harness files are `include!`d inside their module: appended tests land in the same module
    names = []
    for t in tests:
        m = re.search(r"fn (kani_concrete_playback_\w+)\(", t)
        if m:
            names.append(m.group(1))
    hm = re.search(r"concrete_playback_run\(concrete_vals, (\w+)\)", tests[0]) if tests else None
    target_file = None
    for root, _, fs in os.walk(os.path.join(crate, "src")):
        for f in fs:
            txt = open(os.path.join(root, f)).read()
            if hm and re.search(r"fn " + hm.group(1) + r"\(", txt):
                target_file = os.path.join(root, f)
    if target_file is None:
        return False, "harness source not found"
    txt = open(target_file).read()
    hpos = re.search(r"fn " + hm.group(1) + r"\(", txt).start()
    # the tests go NEXT TO the harness (same module, so a private harness inside an inline `mod` is in scope): in front
    # of the attribute / doc lines that precede it
    line_start = txt.rfind("\n", 0, hpos) + 1
    while True:
        prev_start = txt.rfind("\n", 0, line_start - 1) + 1
        prev = txt[prev_start:line_start].strip()
        if line_start > 0 and (prev.startswith("#[") or prev.startswith("///")):
            line_start = prev_start
        else:
            break
    with open(target_file, "w") as f:
        f.write(txt[:line_start] + "\n".join(tests) + "\n" + txt[line_start:])
    env = dict(os.environ, CARGO_NET_OFFLINE="true", CARGO_TARGET_DIR=tgt)
    cmd = ["cargo", "kani", "playback", "-Z", "concrete-playback", "--", "kani_concrete_playback"]
    try:
        p = subprocess.run(cmd, cwd=crate, env=env, capture_output=True, text=True, timeout=1800, preexec_fn=_mem_cap)
    except subprocess.TimeoutExpired:
        return False, "playback timeout"
    outp = p.stdout + p.stderr
    # a playback test that runs PAST the recorded counterexample asks for more values than were
    # recorded ("Not enough det vals found"): that is "no longer fails", not a reproduction
    panics = re.findall(r"panicked at [^\n]*\n([^\n]*)", outp)
    real = [m for m in panics if "Not enough det vals" not in m]
    return bool(real), ("; ".join(real)[:600] + "\n" + outp[-900:])


class _Fut:
    """adapter so check.py can treat one kani invocation (many harnesses) as several futures"""


def submit_all(ex, cfg, here, out, repo, thorough, prop=""):
    futs = {}
    for ku in cfg.get("kani_units", []):
        subst = dict(ku.get("subst_thorough" if thorough else "subst_quick", {}))
        note = ku.get("bound_note", "").format(**subst)
        f = ex.submit(run_kani, ku["unit"], ku["harnesses"], here, out, repo, subst, note, f"{prop}-{ku['unit']}")
        futs[f] = ku
    return futs
