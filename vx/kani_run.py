"""Kani harness runner (filled in per property)."""
def submit_all(ex, cfg, here, out, repo, thorough):
    return {}
