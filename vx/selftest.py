"""Contract-strength self-test (thorough tier): a fixed list of semantic edits is applied to a
scratch COPY of the files under contract (never to /repo) and the units are re-run against the
copy; every edit must turn an obligation red.  The result is reported in evidence
(coverage.self_test); a miss is a weakness of the machinery and never an alarm about /repo."""
import concurrent.futures as cf
import os
import re
import shutil
import tempfile

from .verus_run import run_unit
from . import kani_run as K

ST = "crates/lib/mimium-lang/state-tree/src/"
RT = "crates/lib/mimium-lang/src/runtime/"
SCH = "crates/lib/plugins/mimium-scheduler/src/"
PAR = "crates/lib/mimium-lang/src/compiler/parser/"

# (id, file, old, new, kind, unit[, harnesses])
EDITS = {
    "C08": [
        ("wm01", "crates/lib/mimium-lang/src/runtime/wasm/engine.rs", "                        if next_global_state.len() != state_patch_plan.total_size {", "                        if next_global_state.len() < state_patch_plan.total_size {", "verus", "state_tree"),
        ("wm02", "crates/lib/mimium-lang/src/runtime/wasm/engine.rs", "                    if old_skel == new_skel && state_patch_plan.patches.is_empty() {", "                    if old_skel == new_skel || state_patch_plan.patches.is_empty() {", "verus", "state_tree"),
        ("rs01", "crates/lib/mimium-lang/src/runtime/vm.rs", "        let patch_plan = state_tree::build_state_storage_patch_plan(\n            self.prog\n                .get_dsp_state_skeleton()", "        let patch_plan = state_tree::build_state_storage_patch_plan(\n            new_vm.prog\n                .get_dsp_state_skeleton()", "verus", "state_tree"),
        ("rs02", "crates/lib/mimium-lang/src/runtime/vm.rs", "                state_tree::apply_state_storage_patch_plan(&self.global_states.rawdata, &plan);", "                state_tree::apply_state_storage_patch_plan(&new_vm.global_states.rawdata.clone(), &plan);", "verus", "state_tree"),
        ("st01", ST + "tree.rs", ".take(child_idx)", ".take(child_idx + 1)", "verus", "state_tree"),
        ("st02", ST + "tree.rs", "if child_idx >= children.len() {", "if child_idx > children.len() {", "verus", "state_tree"),
        ("st03", ST + "tree.rs", "DELAY_ADDITIONAL_OFFSET as u64 + *len", "*len", "verus", "state_tree"),
        ("st04", ST + "tree.rs", "Some((offset as usize + child_offset, size))", "Some((child_offset, size))", "verus", "state_tree"),
        ("st05", ST + "tree_diff.rs", "len1 == len2", "len1 >= len2", "verus", "state_tree"),
        ("st06", ST + "tree_diff.rs", "c1.len() == c2.len() && ", "", "verus", "state_tree"),
        ("st07", ST + "tree_diff.rs", "o == old_index && n == new_index", "o == old_index", "verus", "state_tree"),
        ("st08", ST + "tree_diff.rs", ".path_to_address(&new_path)", ".path_to_address(&old_path)", "verus", "state_tree"),
        ("st09", ST + "tree_diff.rs", "                i -= 1;\n                j -= 1;", "                i -= 1;", "verus", "state_tree"),
        ("st10", ST + "tree_diff.rs", "results.push(DiffResult::Insert { new_index: j - 1 });\n                j -= 1;\n            } else if i > 0 {",
         "results.push(DiffResult::Insert { new_index: j });\n                j -= 1;\n            } else if i > 0 {", "verus", "state_tree"),
        ("st11", ST + "tree_diff.rs", "        } else if i > 0 {\n            results.push(DiffResult::Delete { old_index: i - 1 });", "        } else if i > 0 {\n            results.push(DiffResult::Delete { old_index: i });", "verus", "state_tree"),
        ("st12", ST + "tree_diff.rs", "build_patches_recursive(old_skeleton, new_skeleton, vec![], vec![])", "build_patches_recursive(old_skeleton, new_skeleton, vec![0], vec![])", "verus", "state_tree"),
        ("st13", ST + "patch.rs", "let dst_end = patch.dst_addr + patch.size;", "let dst_end = patch.dst_addr + patch.size + 1;", "verus", "state_tree"),
        ("st14", ST + "patch.rs", "&old_storage[patch.src_addr..src_end]", "&old_storage[patch.dst_addr..dst_end]", "verus", "state_tree"),
        ("st15", ST + "lib.rs", "let total_size = new_state_skeleton", "let total_size = old_state_skeleton", "verus", "state_tree"),
        ("st16", ST + "lib.rs", "if old_state_skeleton == new_state_skeleton {", "if old_state_skeleton != new_state_skeleton {", "verus", "state_tree"),
        ("st17", ST + "lib.rs", "vec![0u64; patch_plan.total_size]", "vec![1u64; patch_plan.total_size]", "verus", "state_tree"),
        ("st18", ST + "tree_diff.rs", "size,\n        }]", "size: size + 1,\n        }]", "verus", "state_tree"),
        ("st20", ST + "tree.rs", "(Self::Feed(l0), Self::Feed(r0)) => l0.word_size() == r0.word_size(),", "(Self::Feed(l0), Self::Feed(r0)) => true,", "verus", "state_tree"),
        ("st21", ST + "tree.rs", "(Self::FnCall(l0), Self::FnCall(r0)) => l0 == r0,", "(Self::FnCall(l0), Self::FnCall(r0)) => l0.len() == r0.len(),", "verus", "state_tree"),
        ("st19", ST + "tree_diff.rs", "child_patches_map.push(((old_idx, new_idx), patches, score));", "child_patches_map.push(((new_idx, old_idx), patches, score));", "verus", "state_tree"),
    ],
    "C05": [
        ("ci01", "crates/lib/mimium-lang/src/runtime/vm.rs", "                            self.states_stack.push(closure_idx);\n", "", "verus", "vm_storage"),
        ("ci02", "crates/lib/mimium-lang/src/runtime/vm.rs", "                            machine.execute(pos_of_f, Some(cls_i))\n                        });\n                        self.states_stack.pop();\n                    } else {", "                            machine.execute(pos_of_f, Some(cls_i))\n                        });\n                    } else {", "verus", "vm_storage"),
        ("cc01", "crates/lib/mimium-lang/src/runtime/vm.rs", "                    self.states_stack.push(cls_i);\n                    self.call_function(func, nargs, nret_req, move |machine| {\n                        machine.execute(pos_of_f, Some(cls_i))\n                    });\n                    self.states_stack.pop();\n                }\n                Instruction::Call(", "                    self.states_stack.push(cls_i);\n                    self.call_function(func, nargs, nret_req, move |machine| {\n                        machine.execute(pos_of_f, Some(cls_i))\n                    });\n                }\n                Instruction::Call(", "verus", "vm_storage"),
        ("cc02", "crates/lib/mimium-lang/src/runtime/vm.rs", "                    let pos_of_f = cls.fn_proto_pos;\n                    self.states_stack.push(cls_i);\n                    self.call_function(func, nargs, nret_req, move |machine| {\n                        machine.execute(pos_of_f, Some(cls_i))\n                    });\n                    self.states_stack.pop();\n                }\n                Instruction::Call(", "                    let pos_of_f = cls.fn_proto_pos;\n                    self.call_function(func, nargs, nret_req, move |machine| {\n                        machine.execute(pos_of_f, Some(cls_i))\n                    });\n                }\n                Instruction::Call(", "verus", "vm_storage"),
        ("al01", "crates/lib/mimium-lang/src/compiler/mirgen.rs", "                        let (v, t, s) = self.eval_expr(*item);\n                        ((v, t), s)", "                        let (v, t, s) = self.eval_expr(*item);\n                        let s = if s.len() > 1 { Vec::new() } else { s };\n                        ((v, t), s)", "verus", "mirgen_state"),
        ("cv01", "crates/lib/mimium-lang/src/compiler/mirgen.rs", "            Value::Function(idx) => self.emit_fncall(*idx as u64, coerced_args.to_vec(), ret_ty),", "            Value::Function(idx) => (self.emit_fncall(*idx as u64, coerced_args.to_vec(), ret_ty).0, vec![]),", "verus", "mirgen_state"),
        ("cv02", "crates/lib/mimium-lang/src/compiler/mirgen.rs", "                    self.make_intrinsics(*label, raw_args, coerced_args, ret_ty)\n                {\n                    (res, states)", "                    self.make_intrinsics(*label, raw_args, coerced_args, ret_ty)\n                {\n                    let _ = states;\n                    (res, vec![])", "verus", "mirgen_state"),
        ("aa01", "crates/lib/mimium-lang/src/compiler/mirgen.rs", "            states.extend(s);\n            self.push_inst(Instruction::Store(ptr, v, elem_ty));", "            if i == 0 { states.extend(s); }\n            self.push_inst(Instruction::Store(ptr, v, elem_ty));", "verus", "mirgen_state"),
        ("aa02", "crates/lib/mimium-lang/src/compiler/mirgen.rs", "        // from the type information.\n        (dst, alloc_ty, states)", "        // from the type information.\n        (dst, alloc_ty, Vec::new())", "verus", "mirgen_state"),
        ("da01", "crates/lib/mimium-lang/src/compiler/mirgen.rs", "                    [app_state, arg_states, default_states, state].concat(),", "                    [app_state, arg_states, state].concat(),", "verus", "mirgen_state"),
        ("da02", "crates/lib/mimium-lang/src/compiler/mirgen.rs", "            self.default_arg_states.extend(states);\n", "", "verus", "mirgen_state"),
        ("da03", "crates/lib/mimium-lang/src/compiler/mirgen.rs", "                let push_sum = ctx.get_ctxdata().push_sum;\n                if push_sum > 0 {\n                    ctx.get_current_basicblock().0.push((\n                        Arc::new(mir::Value::None),\n                        Instruction::PopStateOffset(push_sum),\n                    ));\n                }\n                let _v = ctx.push_inst(Instruction::Return(v, ty));", "                let push_sum = ctx.get_ctxdata().push_sum;\n                if push_sum > 1 {\n                    ctx.get_current_basicblock().0.push((\n                        Arc::new(mir::Value::None),\n                        Instruction::PopStateOffset(push_sum),\n                    ));\n                }\n                let _v = ctx.push_inst(Instruction::Return(v, ty));", "verus", "mirgen_state"),
        ("da04", "crates/lib/mimium-lang/src/compiler/mirgen.rs", "                    [app_state, arg_states, default_states, state].concat(),", "                    [app_state, default_states, arg_states, state].concat(),", "verus", "mirgen_state"),
        ("mo01", "crates/lib/mimium-lang/src/compiler/mirgen.rs", "        self.program.functions.push(specialized_fn);\n        if let Some(default_args)", "        specialized_fn.state_skeleton = self.program.functions[0].state_skeleton.clone();\n        self.program.functions.push(specialized_fn);\n        if let Some(default_args)", "verus", "mono_layout"),
        ("mo02", "crates/lib/mimium-lang/src/compiler/mirgen.rs", "        let original_fn = self.program.functions[original_fid.0 as usize].clone();\n        let new_fid", "        let original_fn = self.program.functions[(original_fid.0 as usize).saturating_sub(1)].clone();\n        let new_fid", "verus", "mono_layout"),
        ("cx01", "crates/lib/mimium-lang/src/compiler/mirgen.rs", "        self.data.push(ContextData {\n            func_i: c_idx,\n            ..Default::default()\n        });", "        self.data.push(ContextData {\n            func_i: c_idx,\n            push_sum: self.data[self.data_i].push_sum,\n            ..Default::default()\n        });", "verus", "ctx_stack"),
        ("cx02", "crates/lib/mimium-lang/src/compiler/mirgen.rs", "        let _ = self.data.pop();\n        self.data_i -= 1;", "        let _ = self.data.pop();\n        self.data.truncate(1);\n        self.data_i -= 1;", "verus", "ctx_stack"),
        ("lp01", "crates/lib/mimium-lang/src/compiler/mirgen.rs", "                        let child = ctx.program.functions.get_mut(c_idx.0 as usize).unwrap();", "                        let child = ctx.program.functions.get_mut((c_idx.0 as usize).saturating_sub(1)).unwrap();", "verus", "mirgen_state"),
        ("lp02", "crates/lib/mimium-lang/src/compiler/mirgen.rs", "        self.program.functions.push(newf);\n        FunctionId(index as _)", "        self.program.functions.push(newf);\n        FunctionId(self.program.functions.len() as _)", "verus", "mirgen_state"),
        ("lp03", "crates/lib/mimium-lang/src/mir.rs", "            state_skeleton: StateTreeSkeleton::FnCall(state_boxed),", "            state_skeleton: StateTreeSkeleton::FnCall(state_boxed.into_iter().take(1).collect()),", "verus", "mirgen_state"),
        ("ea01", "crates/lib/mimium-lang/src/compiler/mirgen.rs", "        (ats, states)\n    }", "        (ats, Vec::new())\n    }", "verus", "mirgen_state"),
        ("sy01", "crates/lib/mimium-lang/src/mir.rs", "            Type::Tuple(elems) => StateType(elems.iter().map(|ty| ty.word_size() as u64).sum()),", "            Type::Tuple(elems) => StateType(elems.len() as u64),", "verus", "state_type"),
        ("sy02", "crates/lib/mimium-lang/src/mir.rs", "                    .map(|RecordTypeField { ty, .. }| ty.word_size() as u64)\n                    .sum(),", "                    .map(|RecordTypeField { ty, .. }| ty.word_size().min(1) as u64)\n                    .sum(),", "verus", "state_type"),
        ("sy03", "crates/lib/mimium-lang/src/mir.rs", "            Type::Primitive(PType::Unit) => StateType(0),", "            Type::Primitive(PType::Unit) => StateType(1),", "verus", "state_type"),
        ("sy04", "crates/lib/mimium-lang/src/mir.rs", "            Type::Array(_elem_ty) => StateType(1),", "            Type::Array(_elem_ty) => StateType(2),", "verus", "state_type"),
        ("vs01", "crates/lib/mimium-lang/src/runtime/vm.rs", "        state_storage.resize(fnproto.state_skeleton.total_size() as usize);", "        state_storage.resize(fnproto.state_skeleton.total_size() as usize / 2);", "verus", "vm_storage"),
        ("vs02", "crates/lib/mimium-lang/src/runtime/vm.rs", "            self.global_states\n                .resize(func.state_skeleton.total_size() as usize);", "            if self.global_states.rawdata.is_empty() { self.global_states\n                .resize(func.state_skeleton.total_size() as usize); }", "verus", "vm_storage"),
        ("vs03", "crates/lib/mimium-lang/src/runtime/vm.rs", "        self.pos = (self.pos as u64 - (std::convert::Into::<u64>::into(offset))) as usize;", "        self.pos = (self.pos as u64).saturating_sub(std::convert::Into::<u64>::into(offset) + 1) as usize;", "verus", "vm_storage"),
        ("vs06", "crates/lib/mimium-lang/src/runtime/vm.rs", "            if self.global_states.rawdata.len() < main_size {\n                self.global_states.resize(main_size);\n            }\n", "            if self.global_states.rawdata.is_empty() {\n                self.global_states.resize(main_size.min(1));\n            }\n", "verus", "vm_storage"),
        ("vs07", "crates/lib/mimium-lang/src/runtime/vm.rs", "            if self.global_states.rawdata.len() < main_size {\n                self.global_states.resize(main_size);\n            }\n", "            self.global_states.resize(main_size);\n", "verus", "vm_storage"),
        ("vs04", "crates/lib/mimium-lang/src/compiler/wasmgen.rs", "            self.mir.functions[mir_fn_idx].state_skeleton.total_size()", "            self.mir.functions[mir_fn_idx].state_skeleton.total_size().max(1)", "verus", "backend_state"),
        ("vs05", "crates/lib/mimium-lang/src/compiler/wasmgen.rs", "        func.instruction(&W::I64Const(state_size as i64));\n        func.instruction(&W::Call(self.rt.closure_state_push));", "        func.instruction(&W::I64Const(64));\n        func.instruction(&W::Call(self.rt.closure_state_push));", "verus", "backend_state"),
        ("sg01", "crates/lib/mimium-lang/src/runtime/wasm.rs", "        let pos = current.pos;\n        let needed = pos + size;\n        if needed > current.data.len() {", "        let pos = current.pos;\n        let needed = pos + size + 1;\n        if needed > current.data.len() {", "verus", "wasm_state"),
        ("sg02", "crates/lib/mimium-lang/src/runtime/wasm.rs", "    // Grow data if needed\n    if needed > current.data.len() {\n        current.data.resize(needed, 0);", "    // Grow data if needed\n    if needed >= current.data.len() {\n        current.data.resize(needed + 1, 0);", "verus", "wasm_state"),
        ("sg03", "crates/lib/mimium-lang/src/runtime/wasm.rs", "        current.data[pos..pos + size].to_vec()", "        current.data[pos + 1..pos + size].to_vec()", "verus", "wasm_state"),
        ("cs03", "crates/lib/mimium-lang/src/compiler/wasmgen.rs", "                            .resolve_mir_fn_idx(closure_ptr.as_ref())\n                            .map(|idx| self.get_mir_fn_state_size(idx))", "                            .resolve_mir_fn_idx(closure_ptr.as_ref())\n                            .map(|idx| self.get_mir_fn_state_size(idx) / 2)", "verus", "backend_state"),
        ("cs01", "crates/lib/mimium-lang/src/runtime/wasm.rs", "        cls_state.pos = 0;\n    }\n    state.state_stack.pop();", "        cls_state.pos = 0;\n    }", "verus", "wasm_state"),
        ("cs02", "crates/lib/mimium-lang/src/runtime/wasm.rs", "        .or_insert_with(|| StateStorage::with_size(state_size as usize));", "        .or_insert_with(|| StateStorage::with_size(1));", "verus", "wasm_state"),
        ("cs03", "crates/lib/mimium-lang/src/runtime/wasm.rs", "    state.state_stack.push(closure_addr);\n    // Lazily allocate", "    // Lazily allocate", "verus", "wasm_state"),
        ("cs04", "crates/lib/mimium-lang/src/runtime/wasm.rs", "            pos: 0,\n            data: vec![0u64; size],", "            pos: 0,\n            data: vec![0u64; size + 1],", "verus", "wasm_state"),
        ("tl01", "crates/lib/mimium-lang/src/compiler/mirgen.rs", "                    (r, t_ret, [states, s].concat())", "                    (r, t_ret, s)", "verus", "mirgen_state"),
        ("tl02", "crates/lib/mimium-lang/src/compiler/mirgen.rs", "                (result, ty, [states, states2].concat())", "                (result, ty, states)", "verus", "mirgen_state"),
        ("tl03", "crates/lib/mimium-lang/src/compiler/mirgen.rs", "                self.eval_assign(*assignee, src, ty);\n                (Arc::new(Value::None), unit!(), states)", "                self.eval_assign(*assignee, src, ty);\n                (Arc::new(Value::None), unit!(), vec![])", "verus", "mirgen_state"),
        ("tl04", "crates/lib/mimium-lang/src/compiler/mirgen.rs", "                (res, t, s)\n            })\n            .collect::<Vec<_>>();", "                (res, t, vec![])\n            })\n            .collect::<Vec<_>>();", "verus", "mirgen_state"),
        ("tl05", "crates/lib/mimium-lang/src/compiler/mirgen.rs", "            Some(e) => self.eval_expr(e),\n            None => (Arc::new(Value::None), unit!(), vec![]),\n        };\n        //if returning non-closure function, make closure", "            Some(e) => { let (v, t, _s) = self.eval_expr(e); (v, t, vec![]) }\n            None => (Arc::new(Value::None), unit!(), vec![]),\n        };\n        //if returning non-closure function, make closure", "verus", "mirgen_state"),
        ("bs01", "crates/lib/mimium-lang/src/compiler/bytecodegen.rs", "                Some(VmInstruction::PushStatePos(state_size))", "                Some(VmInstruction::PopStatePos(state_size))", "verus", "backend_state"),
        ("bs02", "crates/lib/mimium-lang/src/compiler/bytecodegen.rs", "                let delay_idx = u8::try_from(funcproto.delay_sizes.len())\n                    .expect(\"too many delays in one function\");\n                funcproto.delay_sizes.push(max);", "                funcproto.delay_sizes.push(max);\n                let delay_idx = u8::try_from(funcproto.delay_sizes.len())\n                    .expect(\"too many delays in one function\");", "verus", "backend_state"),
        ("bs03", "crates/lib/mimium-lang/src/compiler/bytecodegen.rs", "                        bytecodes_dst.push(VmInstruction::SetState(new, size));\n                        Some(VmInstruction::Return(new, size))", "                        bytecodes_dst.push(VmInstruction::SetState(new, 1));\n                        Some(VmInstruction::Return(new, size))", "verus", "backend_state"),
        ("bs04", "crates/lib/mimium-lang/src/compiler/wasmgen.rs", "                func.instruction(&W::I64Const(*offset as i64));\n                func.instruction(&W::Call(self.rt.state_pop));", "                func.instruction(&W::I64Const(*offset as i64));\n                func.instruction(&W::Call(self.rt.state_push));", "verus", "backend_state"),
        ("bs05", "crates/lib/mimium-lang/src/compiler/wasmgen.rs", "                let temp_addr = self.mem_layout.alloc_offset;\n                self.mem_layout.alloc_offset += size_bytes;\n\n                // Call state_get", "                let temp_addr = self.mem_layout.alloc_offset;\n                self.mem_layout.alloc_offset += 8;\n\n                // Call state_get", "verus", "backend_state"),
        ("bs06", "crates/lib/mimium-lang/src/compiler/wasmgen.rs", "                func.instruction(&W::I32Const(size));\n                func.instruction(&W::Call(self.rt.state_get));", "                func.instruction(&W::I32Const(1));\n                func.instruction(&W::Call(self.rt.state_get));", "verus", "backend_state"),
        ("bs07", "crates/lib/mimium-lang/src/compiler/wasmgen.rs", "                let max_len_i64 = i64::try_from(*len).unwrap_or(i64::MAX);\n                func.instruction(&W::I64Const(max_len_i64));", "                let max_len_i64 = i64::try_from(*len).unwrap_or(i64::MAX);\n                func.instruction(&W::I64Const(max_len_i64 + 1));", "verus", "backend_state"),
        ("rb01", RT + "vm/ringbuffer.rs", "*self.write_idx = (write_idx + 1) % len;", "*self.write_idx = write_idx + 1;", "kani", "runtime"),
        ("rb02", RT + "vm/ringbuffer.rs", "let read_idx = (write_idx + len - delay_samples) % len;", "let read_idx = (write_idx + len - delay_samples - 1) % len;", "kani", "runtime"),
        ("rb03", RT + "vm/ringbuffer.rs", "let data_head = head.offset(2);", "let data_head = head.offset(1);", "kani", "runtime"),
        ("rb04", RT + "vm/ringbuffer.rs", "let max_delay = (len - 1) as f64;", "let max_delay = len as f64;", "kani", "runtime"),
        ("vm01", RT + "vm.rs", "let head = self.rawdata.as_ptr().add(self.pos);", "let head = self.rawdata.as_ptr().add(self.pos + 1);", "kani", "runtime"),
        ("vm02", RT + "vm.rs", "self.pos = (self.pos as u64 - (std::convert::Into::<u64>::into(offset))) as usize;", "self.pos = (self.pos as u64 - (std::convert::Into::<u64>::into(offset)) + 1) as usize;", "kani", "runtime"),
        ("wa01", RT + "wasm.rs", "current.data[pos + 1] = (write_idx + 1) % len;", "current.data[pos + 1] = write_idx + 1;", "both", "wasm_state"),
        ("wa02", RT + "wasm.rs", "let write_idx = current.data[pos + 1] % len;", "let write_idx = current.data[pos] % len;", "both", "wasm_state"),
        ("wa03", RT + "wasm.rs", "    current.data[pos] = input.to_bits();\n\n    old_value", "    current.data[pos] = old_bits;\n\n    old_value", "both", "wasm_state"),
        ("wa04", RT + "wasm.rs", "        current.pos = current.pos.saturating_sub(delta);\n    } else {\n        let delta_u64 = offset.unsigned_abs();\n        let delta = usize::try_from(delta_u64).unwrap_or(usize::MAX);\n        current.pos = current.pos.saturating_add(delta);",
         "        current.pos = current.pos.saturating_sub(delta + 1);\n    } else {\n        let delta_u64 = offset.unsigned_abs();\n        let delta = usize::try_from(delta_u64).unwrap_or(usize::MAX);\n        current.pos = current.pos.saturating_add(delta);", "both", "wasm_state"),
        ("mg01", "crates/lib/mimium-lang/src/compiler/mirgen.rs", "                    [vec![skeleton], states].concat(),", "                    [states, vec![skeleton]].concat(),", "verus", "mirgen_state"),
        ("mg02", "crates/lib/mimium-lang/src/compiler/mirgen.rs", "                    [astates, vec![new_skeleton]].concat(),", "                    [vec![new_skeleton], astates].concat(),", "verus", "mirgen_state"),
        ("mg03", "crates/lib/mimium-lang/src/compiler/mirgen.rs", "        if is_stateful {\n            self.consume_and_insert_pushoffset();\n        }\n", "", "verus", "mirgen_state"),
        ("mg04", "crates/lib/mimium-lang/src/compiler/mirgen.rs", "            self.get_ctxdata().push_sum += offset;\n", "", "verus", "mirgen_state"),
        ("mg05", "crates/lib/mimium-lang/src/compiler/mirgen.rs", "                                Instruction::PopStateOffset(push_sum),", "                                Instruction::PopStateOffset(push_sum + 1),", "verus", "mirgen_state"),
        ("mg06", "crates/lib/mimium-lang/src/compiler/mirgen.rs", "                self.get_ctxdata().next_state_offset = Some(skeleton.total_size());\n                (Some(Instruction::Mem(a0)), vec![skeleton])", "                self.get_ctxdata().next_state_offset = Some(skeleton.total_size() + 1);\n                (Some(Instruction::Mem(a0)), vec![skeleton])", "verus", "mirgen_state"),
        ("mg07", "crates/lib/mimium-lang/src/compiler/mirgen.rs", "                self.consume_and_insert_pushoffset();\n                self.get_ctxdata().next_state_offset = Some(new_skeleton.total_size());", "                self.get_ctxdata().next_state_offset = Some(new_skeleton.total_size());", "verus", "mirgen_state"),
        ("mg08", "crates/lib/mimium-lang/src/compiler/mirgen.rs", "                    data.push_sum = branch_push_sum;\n", "", "verus", "mirgen_state"),
        ("mg09", "crates/lib/mimium-lang/src/compiler/mirgen.rs", "                self.get_ctxdata().push_sum = then_sum.max(else_sum);", "                self.get_ctxdata().push_sum = then_sum.min(else_sum);", "verus", "mirgen_state"),
        ("mg10", "crates/lib/mimium-lang/src/compiler/mirgen.rs", "                let (e, _, state_e) = self.eval_block(*else_);\n                self.consume_and_insert_pushoffset();", "                let (e, _, state_e) = self.eval_block(*else_);", "verus", "mirgen_state"),
        ("mg11", "crates/lib/mimium-lang/src/compiler/mirgen.rs", "                    std::cmp::Ordering::Equal => state_t.clone(),\n                };\n                self.get_ctxdata().push_sum", "                    std::cmp::Ordering::Equal => vec![],\n                };\n                self.get_ctxdata().push_sum", "verus", "mirgen_state"),
        ("mg12", "crates/lib/mimium-lang/src/compiler/mirgen.rs", "                        let (r, t, s) = self.eval_expr(*t);\n                        (r, t, [states, s].concat())\n                    }\n                    None => (Arc::new(Value::None), unit!(), states),", "                        let (r, t, s) = self.eval_expr(*t);\n                        (r, t, s)\n                    }\n                    None => (Arc::new(Value::None), unit!(), states),", "verus", "mirgen_state"),
        ("mu01", "crates/lib/mimium-lang/src/compiler/mirgen.rs", "                    let start_offset = match_pending + arms_state_size;\n                    let data = self.get_ctxdata();\n                    data.push_sum = match_push_sum;", "                    let start_offset = match_pending + arms_state_size;\n                    let data = self.get_ctxdata();\n                    data.push_sum = 0;", "verus", "mirgen_state"),
        ("mu02", "crates/lib/mimium-lang/src/compiler/mirgen.rs", "                    Instruction::PushStateOffset(common_sum - end_sum),", "                    Instruction::PushStateOffset(common_sum - end_sum + 1),", "verus", "mirgen_state"),
        ("mu03", "crates/lib/mimium-lang/src/compiler/mirgen.rs", "                // emit the arm's pending cursor move inside the arm\n                self.consume_and_insert_pushoffset();\n                arms_state_size", "                // emit the arm's pending cursor move inside the arm\n                arms_state_size", "verus", "mirgen_state"),
        ("mu04", "crates/lib/mimium-lang/src/compiler/mirgen.rs", "        self.get_ctxdata().push_sum = common_sum;\n\n        // Generate merge block with PhiSwitch\n        self.add_new_basicblock();\n        let merge_block_idx = self.get_ctxdata().current_bb as u64;\n        let res = self.push_inst(Instruction::PhiSwitch(case_results));\n\n        // Update Switch instruction with correct block indices\n        let switch_inst = self\n            .get_current_fn()\n            .body\n            .get_mut(switch_bidx)\n            .expect(\"no basic block found\")\n            .0\n            .last_mut()\n            .expect(\"block contains no inst\");\n\n        match &mut switch_inst.1 {\n            Instruction::Switch {\n                cases,\n                default_block,\n                merge_block,\n                ..\n            } => {\n                *cases = case_blocks;\n                *default_block = default_block_idx;\n                *merge_block = merge_block_idx;\n            }\n            _ => panic!(\"expected Switch instruction\"),\n        }\n\n        // Use the largest", "        self.get_ctxdata().push_sum = match_push_sum;\n\n        // Generate merge block with PhiSwitch\n        self.add_new_basicblock();\n        let merge_block_idx = self.get_ctxdata().current_bb as u64;\n        let res = self.push_inst(Instruction::PhiSwitch(case_results));\n\n        // Update Switch instruction with correct block indices\n        let switch_inst = self\n            .get_current_fn()\n            .body\n            .get_mut(switch_bidx)\n            .expect(\"no basic block found\")\n            .0\n            .last_mut()\n            .expect(\"block contains no inst\");\n\n        match &mut switch_inst.1 {\n            Instruction::Switch {\n                cases,\n                default_block,\n                merge_block,\n                ..\n            } => {\n                *cases = case_blocks;\n                *default_block = default_block_idx;\n                *merge_block = merge_block_idx;\n            }\n            _ => panic!(\"expected Switch instruction\"),\n        }\n\n        // Use the largest", "verus", "mirgen_state"),
        ("am01", RT + "vm.rs", "                    let ptr = self.get_current_state().get_state_mut(1);\n                    ptr[0] = s;", "                    let ptr = self.get_current_state().get_state_mut(1);\n                    ptr[0] = v;", "kani", "runtime"),
        ("am02", RT + "vm.rs", "                    self.set_stack_range(dst as i64, v);\n                }\n                Instruction::SetState", "                    self.set_stack_range(dst as i64 + 1, v);\n                }\n                Instruction::SetState", "kani", "runtime"),
        ("am03", RT + "vm.rs", "                    let res = ringbuf.process(i, t);", "                    let res = ringbuf.process(t, i);", "kani", "runtime"),
        ("am04", RT + "vm.rs", "                        let (_range, v) = self.get_stack_range(src as i64, size as _);", "                        let (_range, v) = self.get_stack_range(src as i64 + 1, size as _);", "kani", "runtime"),
        ("am05", RT + "vm.rs", "                Instruction::PopStatePos(v) => self.get_current_state().pop_pos(v),", "                Instruction::PopStatePos(v) => self.get_current_state().push_pos(v),", "kani", "runtime"),
        ("st01", ST + "tree.rs", ".take(child_idx)", ".take(child_idx + 1)", "verus", "state_tree"),
        ("st03", ST + "tree.rs", "DELAY_ADDITIONAL_OFFSET as u64 + *len", "*len", "verus", "state_tree"),
    ],
    "C12": [
        ("at01", "crates/lib/mimium-lang/src/runtime/vm/program.rs", "        if self.type_table.len() < 256 {\n            self.type_table.push(ty);", "        if self.type_table.len() <= 256 {\n            self.type_table.push(ty);", "verus", "backend_state"),
        ("at02", "crates/lib/mimium-lang/src/runtime/vm/program.rs", "        if let Some(idx) = self.type_table.iter().position(|&t| t == ty) {\n            return Some(idx as u8);", "        if let Some(idx) = self.type_table.iter().position(|&t| t == ty) {\n            return Some((idx as u8).saturating_sub(1));", "verus", "backend_state"),
        ("br01", "crates/lib/mimium-lang/src/compiler/bytecodegen.rs", "                Some(VmInstruction::BoxRelease(src_reg))", "                Some(VmInstruction::BoxClone(src_reg))", "verus", "backend_state"),
        ("br02", "crates/lib/mimium-lang/src/compiler/wasmgen.rs", "                func.instruction(&W::Call(self.rt.box_release));", "                func.instruction(&W::Call(self.rt.box_clone));", "verus", "backend_state"),
        ("br03", "crates/lib/mimium-lang/src/compiler/bytecodegen.rs", "                Some(VmInstruction::ReleaseUserSum(value_reg, size, type_idx))", "                Some(VmInstruction::ReleaseUserSum(value_reg, size, type_idx.saturating_sub(1)))", "verus", "backend_state"),
        ("hw01", "crates/lib/mimium-lang/src/runtime/wasm.rs", "    let heap_idx: heap::HeapIdx = unsafe { std::mem::transmute::<u64, heap::HeapIdx>(obj as u64) };\n    heap::heap_release(&mut state.heap, heap_idx);\n}\n\nfn box_store_host", "    let heap_idx: heap::HeapIdx = unsafe { std::mem::transmute::<u64, heap::HeapIdx>(obj as u64) };\n    if state.heap.len() > 1 { heap::heap_release(&mut state.heap, heap_idx); }\n}\n\nfn box_store_host", "verus", "heap"),
        ("hw02", "crates/lib/mimium-lang/src/runtime/wasm.rs", "    let heap_obj = heap::HeapObject::new(size_words as usize);", "    let heap_obj = heap::HeapObject::new((size_words as usize).max(1));", "verus", "heap"),
        ("lr01", "crates/lib/mimium-lang/src/compiler/mirgen.rs", "                                    ctx.insert_clone_recursively(res.clone(), effective_rt);\n                                    let _ = ctx", "                                    let _ = ctx", "verus", "mirgen_rc"),
        ("lr02", "crates/lib/mimium-lang/src/compiler/mirgen.rs", "                                ctx.insert_close_closures_recursively(cls.clone(), effective_rt);\n                                ctx.insert_clone_recursively(cls.clone(), effective_rt);", "                                ctx.insert_clone_recursively(cls.clone(), effective_rt);", "verus", "mirgen_rc"),
        ("ea10", "crates/lib/mimium-lang/src/compiler/mirgen.rs", "                    self.insert_close_closures_recursively(res.clone(), t);", "                    self.insert_clone_recursively(res.clone(), t);", "verus", "mirgen_rc"),
        ("ea11", "crates/lib/mimium-lang/src/compiler/mirgen.rs", "                if t.to_type().contains_function() || t.to_type().contains_boxed() {\n                    self.insert_clone_recursively(res.clone(), t);", "                if t.to_type().contains_function() || t.to_type().contains_boxed() {\n                    self.insert_clone_recursively(v.clone(), t);", "verus", "mirgen_rc"),
        ("bp01", "crates/lib/mimium-lang/src/compiler/mirgen.rs", "                        // (same rationale as add_bind_pattern tuple case).\n                        self.insert_clone_recursively(elem_val.clone(), *elem_ty);", "                        // (same rationale as add_bind_pattern tuple case).", "verus", "mirgen_rc"),
        ("bp02", "crates/lib/mimium-lang/src/compiler/mirgen.rs", "                        self.bind_pattern(pat, elem_val, bind_ty);", "                        self.bind_pattern(pat, elem_val, *elem_ty);", "verus", "mirgen_rc"),
        ("bp03", "crates/lib/mimium-lang/src/compiler/mirgen.rs", "                if let Some(inner_pat) = inner {\n                    self.bind_pattern(inner_pat, value, ty);", "                if let Some(inner_pat) = inner {\n                    self.insert_clone_recursively(value.clone(), ty);\n                    self.bind_pattern(inner_pat, value, ty);", "verus", "mirgen_rc"),
        ("dt01", "crates/lib/mimium-lang/src/compiler/mirgen.rs", "                            self.insert_clone_recursively(elem_val.clone(), elem_types[col_idx]);\n", "", "verus", "mirgen_rc"),
        ("dt02", "crates/lib/mimium-lang/src/compiler/mirgen.rs", "                            self.insert_clone_recursively(payload.clone(), payload_ty);\n", "", "verus", "mirgen_rc"),
        ("pb01", "crates/lib/mimium-lang/src/compiler/mirgen.rs", "                    self.insert_clone_recursively(bound_val.clone(), vt);\n", "", "verus", "mirgen_rc"),
        ("lx01", "crates/lib/mimium-lang/src/compiler/mirgen.rs", "                        let value = self.push_inst(Instruction::Load(ptr, ty));\n                        self.insert_release_recursively(value, ty);", "                        let value = self.push_inst(Instruction::Load(ptr, ty));\n                        self.insert_release_recursively(value.clone(), ty);\n                        self.insert_release_recursively(value, ty);", "verus", "mirgen_rc"),
        ("lx02", "crates/lib/mimium-lang/src/compiler/mirgen.rs", "                        let value = self.push_inst(Instruction::Load(ptr, ty));\n                        self.insert_release_recursively(value, ty);", "                        let value = self.push_inst(Instruction::Load(ptr, ty));\n                        self.insert_close_closures_recursively(value.clone(), ty);\n                        self.insert_release_recursively(value, ty);", "verus", "mirgen_rc"),
        ("px01", "crates/lib/mimium-lang/src/compiler/mirgen.rs", "                self.insert_clone_recursively(res.clone(), elem_ty);\n                (res, elem_ty, states)", "                (res, elem_ty, states)", "verus", "mirgen_rc"),
        ("px02", "crates/lib/mimium-lang/src/compiler/mirgen.rs", "                        self.insert_clone_recursively(res.clone(), field_ty);", "                        self.insert_clone_recursively(res.clone(), expr_ty);", "verus", "mirgen_rc"),
        ("px03", "crates/lib/mimium-lang/src/compiler/mirgen.rs", "                        self.insert_clone_recursively(res.clone(), field_ty);", "                        self.insert_clone_recursively(expr_v.clone(), field_ty);", "verus", "mirgen_rc"),
        ("hp01", RT + "vm/heap.rs", "        obj.refcount -= 1;\n        log::trace!(\"heap_release: {:?} refcount -> {}\", idx, obj.refcount);", "        obj.refcount -= 2;\n        log::trace!(\"heap_release: {:?} refcount -> {}\", idx, obj.refcount);", "both", "heap"),
        ("hp02", RT + "vm/heap.rs", "        if obj.refcount == 0 {\n            log::trace!(\"heap_release: freeing {idx:?}\");", "        if obj.refcount <= 1 {\n            log::trace!(\"heap_release: freeing {idx:?}\");", "both", "heap"),
        ("hp03", RT + "vm/heap.rs", "obj.refcount += 1;", "obj.refcount += 2;", "both", "heap"),
        ("hp04", RT + "vm/heap.rs", "        log::trace!(\"heap_release_closure: freeing {idx:?}\");\n        storage.remove(idx);", "        log::trace!(\"heap_release_closure: freeing {idx:?}\");", "both", "heap"),
        ("hp05", RT + "vm/heap.rs", "            refcount: 1,\n            size,\n            data: vec![0; size],", "            refcount: 0,\n            size,\n            data: vec![0; size],", "verus", "heap"),
        ("cl01", RT + "vm.rs", "            if !self.get_closure(closure_idx).is_closed {\n                self.drop_closure(closure_idx);", "            if self.get_closure(closure_idx).is_closed {\n                self.drop_closure(closure_idx);", "verus", "closures"),
        ("cl02", RT + "vm.rs", "        // the refcount will still be > 0 after this release.\n        heap::heap_release(&mut self.heap, heap_idx);", "        // the refcount will still be > 0 after this release.", "verus", "closures"),
        ("cl03", RT + "vm.rs", "        for &heap_idx in local_heap_closures {", "        for &heap_idx in local_heap_closures.iter().skip(1) {", "verus", "closures"),
        ("cl04", RT + "vm.rs", "            if !cls.is_closed {\n                // log::debug!(\"release {:?}\", clsidx);", "            if cls.is_closed {\n                // log::debug!(\"release {:?}\", clsidx);", "verus", "closures"),
        ("cl05", RT + "vm.rs", "heap::HeapObject::with_data(vec![Self::to_value(closure_idx)]);", "heap::HeapObject::with_data(vec![0, Self::to_value(closure_idx)]);", "verus", "closures"),
        ("ca01", RT + "vm.rs", "                        heap::heap_retain(&mut self.heap, heap_idx);\n                        if let Some(closure) = self.closures.get_mut(closure_idx.0) {\n                            closure.refcount += 1;\n                        }", "                        heap::heap_retain(&mut self.heap, heap_idx);", "verus", "closures"),
        ("ca02", RT + "vm.rs", "                    let heap_idx = Self::get_as::<heap::HeapIdx>(heap_addr);\n                    heap::heap_retain(&mut self.heap, heap_idx);\n                }\n                Instruction::BoxRelease", "                    let heap_idx = Self::get_as::<heap::HeapIdx>(heap_addr);\n                    heap::heap_retain(&mut self.heap, heap_idx);\n                    heap::heap_retain(&mut self.heap, heap_idx);\n                }\n                Instruction::BoxRelease", "verus", "closures"),
        ("ca03", RT + "vm.rs", "                    let heap_idx = Self::get_as::<heap::HeapIdx>(heap_addr);\n                    heap::heap_release(&mut self.heap, heap_idx);\n                }\n                Instruction::BoxStore", "                    let heap_idx = Self::get_as::<heap::HeapIdx>(heap_addr);\n                    heap::heap_retain(&mut self.heap, heap_idx);\n                }\n                Instruction::BoxStore", "verus", "closures"),
        ("ca04", RT + "vm.rs", "                    local_heap_closures.push(heap_idx);\n", "", "verus", "closures"),
        ("ca05", RT + "vm.rs", "                    local_closures.push(vaddr);\n", "", "verus", "closures"),
        ("ca06", RT + "vm.rs", "                    } else if let Some(closure_idx) = self.try_get_direct_closure(heap_addr) {\n                        if let Some(closure) = self.closures.get_mut(closure_idx.0) {\n                            closure.refcount += 1;", "                    } else if let Some(closure_idx) = self.try_get_direct_closure(heap_addr) {\n                        if let Some(closure) = self.closures.get_mut(closure_idx.0) {\n                            closure.refcount += 2;", "verus", "closures"),
        ("uv01", RT + "vm.rs", "                    UpValue::Closed(v, is_closure) => (*is_closure).then_some(v[0]),", "                    UpValue::Closed(..) => None,", "verus", "upvalues"),
        ("uv02", RT + "vm.rs", "                        *upv = UpValue::Closed(ov_raw.to_vec(), is_closure);\n                        is_closure.then_some(ov_raw[0])", "                        *upv = UpValue::Closed(ov_raw.to_vec(), is_closure);\n                        Some(ov_raw[0])", "verus", "upvalues"),
        ("uv03", RT + "vm.rs", "                        UpValue::Closed(data, true) => Some(data[0]),", "                        UpValue::Closed(data, _) => Some(data[0]),", "verus", "upvalues"),
        ("uv04", RT + "vm.rs", "                        *upv = UpValue::Closed(ov_raw.to_vec(), is_closure);", "                        *upv = UpValue::Closed(ov_raw.to_vec(), false);", "verus", "upvalues"),
        ("ch01", "crates/lib/mimium-lang/src/runtime/vm.rs", "                        self.close_heap_upvalues(heap_idx);\n                    } else if let Some(closure_idx) = self.try_get_direct_closure(heap_addr) {", "                        self.close_heap_upvalues(heap_idx);\n                        heap::heap_release(&mut self.heap, heap_idx);\n                    } else if let Some(closure_idx) = self.try_get_direct_closure(heap_addr) {", "verus", "closures"),
        ("ch02", "crates/lib/mimium-lang/src/runtime/vm.rs", "                let closure_idx = Self::get_as::<ClosureIdx>(heap_obj.data[0]);\n                // Close upvalues directly by ClosureIdx without corrupting the stack\n                self.close_upvalues_by_idx(closure_idx);", "                let closure_idx = Self::get_as::<ClosureIdx>(heap_obj.data[0]);\n                // Close upvalues directly by ClosureIdx without corrupting the stack\n                self.close_upvalues_by_idx(closure_idx);\n                self.close_upvalues_by_idx(closure_idx);", "verus", "closures"),
        ("rt01", "crates/lib/mimium-lang/src/runtime/vm.rs", "                    let _ = self.return_general(iret, nret);\n                    self.release_open_closures(&local_closures);\n", "                    let _ = self.return_general(iret, nret);\n", "verus", "closures"),
        ("rt02", "crates/lib/mimium-lang/src/runtime/vm.rs", "                    self.release_open_closures(&local_closures);\n                    self.release_heap_closures(&local_heap_closures);\n                    return 0;", "                    self.release_heap_closures(&local_heap_closures);\n                    self.release_open_closures(&local_closures);\n                    return 0;", "verus", "closures"),
        ("bl01", "crates/lib/mimium-lang/src/runtime/vm.rs", "                    heap_obj.data[..inner_size as usize].copy_from_slice(&data);", "                    heap_obj.data[..inner_size as usize].copy_from_slice(&data);\n                    heap_obj.refcount = 1;", "verus", "closures"),
        ("bl02", "crates/lib/mimium-lang/src/runtime/vm.rs", "                    let data: Vec<u64> = heap_obj.data[..inner_size as usize].to_vec();\n                    self.set_stack_range(dst as i64, &data);", "                    let data: Vec<u64> = heap_obj.data[..inner_size as usize].to_vec();\n                    self.set_stack_range(dst as i64, &data);\n                    heap::heap_release(&mut self.heap, heap_idx);", "verus", "closures"),
        ("us10", "crates/lib/mimium-lang/src/runtime/vm.rs", "                    Self::clone_usersum_recursive(&value_vec, &ty, &mut self.heap);", "                    if value_size > 1 { Self::clone_usersum_recursive(&value_vec, &ty, &mut self.heap); }", "verus", "usersum"),
        ("us11", "crates/lib/mimium-lang/src/runtime/vm.rs", "                    let (_, value_data) = self.get_stack_range(value_reg as i64, value_size);\n                    let value_vec = value_data.to_vec();\n                    let tt = &self.prog.type_table;", "                    let (_, value_data) = self.get_stack_range(value_reg as i64 + 1, value_size);\n                    let value_vec = value_data.to_vec();\n                    let tt = &self.prog.type_table;", "verus", "usersum"),
        ("rc12", "crates/lib/mimium-lang/src/compiler/mirgen.rs", "                    if matches!(body.to_expr(), Expr::Var(_))\n                        && (t.to_type().contains_boxed()", "                    if !matches!(body.to_expr(), Expr::Var(_))\n                        && (t.to_type().contains_boxed()", "verus", "mirgen_rc"),
        ("rc13", "crates/lib/mimium-lang/src/compiler/mirgen.rs", "                        self.insert_clone_recursively(bodyv.clone(), t);\n                    }\n                    // ローカル変数の場合", "                        self.insert_clone_recursively(bodyv.clone(), t);\n                        self.insert_clone_recursively(bodyv.clone(), t);\n                    }\n                    // ローカル変数の場合", "verus", "mirgen_rc"),
        ("rc09", "crates/lib/mimium-lang/src/compiler/mirgen.rs", "                    if !named && counted {", "                    if named && counted {", "verus", "mirgen_rc"),
        ("rc10", "crates/lib/mimium-lang/src/compiler/mirgen.rs", "                            tuple_offset: offset as u64,\n                        });\n                        self.insert_clone_recursively(elem_v, field.ty);", "                            tuple_offset: 0,\n                        });\n                        self.insert_clone_recursively(elem_v, field.ty);", "verus", "mirgen_rc"),
        ("rc11", "crates/lib/mimium-lang/src/compiler/mirgen.rs", "                        self.insert_clone_recursively(elem_v.clone(), elem_t);\n", "", "verus", "mirgen_rc"),
        ("rc07", "crates/lib/mimium-lang/src/compiler/mirgen.rs", "                        tuple_offset: i as u64,", "                        tuple_offset: 0,", "verus", "mirgen_rc"),
        ("rc08", "crates/lib/mimium-lang/src/compiler/mirgen.rs", "                    self.insert_release_recursively(field_v, field.ty);", "                    self.insert_release_recursively(v.clone(), field.ty);", "verus", "mirgen_rc"),
        ("rc05", "crates/lib/mimium-lang/src/compiler/mirgen.rs", "                    self.insert_clone_recursively(elem_v.clone(), *cty);\n", "", "verus", "mirgen_rc"),
        ("rc06", "crates/lib/mimium-lang/src/compiler/mirgen.rs", "                    self.insert_clone_recursively(elem_v.clone(), *cty);\n", "                    if i > 0 { self.insert_clone_recursively(elem_v.clone(), *cty); }\n", "verus", "mirgen_rc"),
        ("rc01", "crates/lib/mimium-lang/src/compiler/mirgen.rs", "                    self.insert_release_recursively(field_v, field.ty);\n", "", "verus", "mirgen_rc"),
        ("rc02", "crates/lib/mimium-lang/src/compiler/mirgen.rs", "                // Boxed value being duplicated — increment its reference count\n                self.push_inst(Instruction::BoxClone { ptr: v.clone() });", "                // Boxed value being duplicated — increment its reference count", "verus", "mirgen_rc"),
        ("rc03", "crates/lib/mimium-lang/src/compiler/mirgen.rs", "                self.push_inst(Instruction::ReleaseUserSum {\n                    value: v.clone(),\n                    ty,\n                });", "                self.push_inst(Instruction::CloneUserSum {\n                    value: v.clone(),\n                    ty,\n                });", "verus", "mirgen_rc"),
        ("rc04", "crates/lib/mimium-lang/src/compiler/mirgen.rs", "                    self.insert_clone_recursively(elem_v, *elem_ty);", "                    self.insert_clone_recursively(elem_v.clone(), *elem_ty);\n                    self.insert_clone_recursively(elem_v, *elem_ty);", "verus", "mirgen_rc"),
        ("hp06", RT + "vm/heap.rs", "        obj.refcount == 0\n    } else {", "        obj.refcount <= 1\n    } else {", "both", "heap"),
    ],
    "C11": [
        ("fx01", "crates/lib/mimium-lang/src/runtime/vm_ffi.rs", "    machine.execute(closure.fn_proto_pos, Some(closure_idx));\n    machine.drop_closure(closure_idx);", "    machine.execute(closure.fn_proto_pos, Some(closure_idx));", "verus", "dsp_tick"),
        ("fx02", "crates/lib/mimium-lang/src/runtime/vm_ffi.rs", "    machine.drop_closure(closure_idx);\n    0\n}", "    machine.drop_closure(closure_idx);\n    machine.drop_closure(closure_idx);\n    0\n}", "verus", "dsp_tick"),
        ("dt01", "crates/lib/plugins/mimium-audiodriver/src/driver.rs", "        self.sys_plugin_workers.iter_mut().for_each(\n            |plug: &mut Box<dyn SystemPluginAudioWorker>| {\n                let _ = plug.on_sample(time, &mut self.vm);\n            },\n        );\n        let rc = self.vm.execute_idx(self.dsp_i);\n", "        let rc = self.vm.execute_idx(self.dsp_i);\n        self.sys_plugin_workers.iter_mut().for_each(\n            |plug: &mut Box<dyn SystemPluginAudioWorker>| {\n                let _ = plug.on_sample(time, &mut self.vm);\n            },\n        );\n", "verus", "dsp_tick"),
        ("dt02", "crates/lib/mimium-lang/src/runtime/wasm/engine.rs", "            worker.on_sample(time, &mut self.engine);", "            worker.on_sample(Time(time.0 + 1), &mut self.engine);", "verus", "dsp_tick"),
        ("dt03", "crates/lib/plugins/mimium-audiodriver/src/backends/local_buffer.rs", "            self.count.store(now + 1, Ordering::Relaxed);", "            self.count.store(now + 2, Ordering::Relaxed);", "verus", "dsp_tick"),
        ("dt04", "crates/lib/plugins/mimium-audiodriver/src/backends/local_buffer.rs", "            let _ = vmdata.run_dsp(Time(now));", "            let _ = vmdata.run_dsp(Time(now + 1));", "verus", "dsp_tick"),
        ("dt05", "crates/lib/plugins/mimium-audiodriver/src/driver.rs", "                let _ = plug.on_sample(time, &mut self.vm);", "                let _ = plug.on_sample(Time(time.0.saturating_sub(1)), &mut self.vm);", "verus", "dsp_tick"),
        ("hf02", "crates/lib/mimium-lang/src/compiler/bytecodegen.rs", "                    let pos = funcproto.add_new_constant(gen_raw_float(&n));\n                    Some(VmInstruction::MoveConst(dst, pos as ConstPos))", "                    let pos = funcproto.add_new_constant(gen_raw_float(&n));\n                    Some(VmInstruction::MoveConst(dst, (pos + 1) as ConstPos))", "verus", "float_imm"),
        ("hf04", "crates/lib/mimium-lang/src/runtime/vm.rs", "                    self.set_stack(dst as i64, Self::to_value(Into::<f64>::into(v)));", "                    self.set_stack(dst as i64 + 1, Self::to_value(Into::<f64>::into(v)));", "verus", "float_imm"),
        ("hf01", "crates/lib/mimium-lang/src/utils/half_float.rs", "        let hv = f16::from_f64(value);", "        let hv = f16::from_f64(value);\n        let value = value + 1.0;", "verus", "float_imm"),
        ("sc01", SCH + "scheduler.rs", "Some(Reverse(Task { when, closure })) if *when <= now => {", "Some(Reverse(Task { when, closure })) if *when < now => {", "verus", "scheduler"),
        ("sc02", SCH + "scheduler.rs", "self.when.cmp(&other.when)", "self.closure.cmp(&other.closure)", "both", "scheduler"),
        ("sc03", SCH + "scheduler.rs", "                let _ = self.tasks.pop();\n", "", "verus", "scheduler"),
        ("sc04", SCH + "scheduler.rs", "            self.tasks.push(Reverse(task));\n", "", "verus", "scheduler"),
        ("sc05", SCH + "scheduler.rs", "            handle.execute_closure(closure);", "            handle.execute_closure(closure);\n            handle.execute_closure(closure);", "verus", "scheduler"),
        ("sc06", SCH + "wasm_handle.rs", "            if task.when <= now {", "            if task.when < now {", "verus", "scheduler"),
        ("sc07", SCH + "wasm_handle.rs", "                ready.push(state.tasks.pop().unwrap().0.closure as i64);", "                ready.push(task.closure as i64);", "verus", "scheduler"),
        ("sc08", SCH + "wasm_handle.rs", "                if when <= s.current_time {", "                if when < s.current_time {", "verus", "scheduler"),
        ("sc09", SCH + "wasm_handle.rs", "let when = args[0] as u64;", "let when = args[0].round() as u64;", "verus", "scheduler"),
        ("sc10", SCH + "wasm_handle.rs", ".push(Reverse(Task::new(Time(when), closure_addr as u64)));", ".push(Reverse(Task::new(Time(when + 1), closure_addr as u64)));", "verus", "scheduler"),
        ("sc11", SCH + "wasm_handle.rs", "self.state.lock().unwrap().current_time = time;", "self.state.lock().unwrap().current_time = time + 1;", "verus", "scheduler"),
    ],
    "C13": [
        ("sp01", "crates/lib/mimium-lang/src/compiler/parser/tokenizer.rs", "let dot = Token::new(TokenKind::Dot, token.start + head_len, 1);", "let dot = Token::new(TokenKind::Dot, token.start + head_len + 1, 1);", "verus", "parser_tokens"),
        ("sp02", "crates/lib/mimium-lang/src/compiler/parser/tokenizer.rs", "let tail = Token::new(TokenKind::Int, token.start + head_len + 1, tail_len);", "let tail = Token::new(TokenKind::Int, token.start + head_len + 1, tail_len - 1);", "verus", "parser_tokens"),
        ("sp03", "crates/lib/mimium-lang/src/compiler/parser/tokenizer.rs", "            result.push(dot);\n", "", "verus", "parser_tokens"),
        ("pt01", PAR + "tokenizer.rs", "Token::new(TokenKind::Error, span.start, span.end - span.start)", "Token::new(TokenKind::Error, span.start, 1)", "verus", "parser_tokens"),
        ("pt02", PAR + "tokenizer.rs", "Token::new(kind, span.start, span.end - span.start)", "Token::new(kind, span.end, span.end - span.start)", "verus", "parser_tokens"),
        ("pt03", PAR + "tokenizer.rs", "tokens.push(Token::new(TokenKind::Eof, source.len(), 0));", "tokens.push(Token::new(TokenKind::Eof, source.len(), 1));", "verus", "parser_tokens"),
        ("pt04", PAR + "token.rs", "                | TokenKind::MultiLineComment\n", "", "verus", "preparse"),
        ("pt05", PAR + "token.rs", "        self.start + self.length\n", "        self.start + self.length + 1\n", "verus", "parser_tokens"),
        ("pp01", PAR + "preparser.rs", "            result.token_indices.push(i);", "            result.token_indices.push(i + 1);", "verus", "preparse"),
        ("pp02", PAR + "preparser.rs", "            last_token_idx = Some(current_idx);", "            last_token_idx = Some(i);", "verus", "preparse"),
        ("pp03", PAR + "preparser.rs", "        } else if token.kind != TokenKind::Eof {", "        } else if token.kind != TokenKind::Error {", "verus", "preparse"),
        ("pp04", PAR + "preparser.rs", "            // Collect trivia\n            pending_trivia.push(i);", "            if token.kind != TokenKind::Whitespace { pending_trivia.push(i); }", "verus", "preparse"),
        ("cp01", PAR + "cst_parser.rs", "        self.current += 1;\n    }\n\n    /// Expect a specific token kind", "        self.current += 2;\n    }\n\n    /// Expect a specific token kind", "verus", "cst_parser"),
        ("gr01", PAR + "green.rs", "            parent_children.push(node_id);", "            parent_children.insert(0, node_id);", "verus", "cst_parser"),
        ("gr02", PAR + "green.rs", "self.nodes.insert(GreenNode::Token { token_index, width })", "self.nodes.insert(GreenNode::Token { token_index: width, width })", "verus", "cst_parser"),
        ("gr03", PAR + "green.rs", "            // Push new node with those children\n            self.stack.push((kind, wrapped_children));", "            // Push new node with those children\n            self.stack.push((kind, Vec::new()));", "verus", "cst_parser"),
        ("gr04", PAR + "green.rs", "        if let Some((kind, children)) = self.stack.pop() {\n            let node_id = self.arena.alloc_internal(kind, children);", "        if let Some((kind, mut children)) = self.stack.pop() {\n            children.pop();\n            let node_id = self.arena.alloc_internal(kind, children);", "verus", "cst_parser"),
        ("gr05", PAR + "green.rs", "        let token_id = self.arena.alloc_token(token_index, width);\n        if let Some((_, children)) = self.stack.last_mut() {", "        let token_id = self.arena.alloc_token(token_index, width);\n        if let Some((_, children)) = self.stack.first_mut() {", "verus", "cst_parser"),
        ("cp06", PAR + "cst_parser.rs", "        self.builder.start_node(SyntaxKind::Program);\n\n        while !self.is_at_end() {", "        while !self.is_at_end() {", "verus", "cst_parser"),
        ("cp03", PAR + "cst_parser.rs", "            if self.current == before && !self.is_at_end() {", "            if self.current != before && !self.is_at_end() {", "verus", "cst_parser"),
        ("cp04", PAR + "cst_parser.rs", "        if self.check(kind) {\n            self.bump();\n            true", "        if self.check(kind) {\n            true", "verus", "cst_parser"),
        ("cp05", PAR + "cst_parser.rs", "        self.peek().is_none_or(|k| k == TokenKind::Eof)", "        self.peek().is_none_or(|k| k == TokenKind::Error)", "verus", "cst_parser"),
        ("cp02", PAR + "cst_parser.rs", "self.builder.add_token(token_idx, token.length);", "self.builder.add_token(token_idx + 1, token.length);", "verus", "cst_parser"),
        # --- recursive-descent methods (unit cst_parser): each edit must fail the uniform contract of a parse_* method
        ("ps01", PAR + "cst_parser.rs", "                if this.check(TokenKind::OpProduct) {\n                    this.emit_node(SyntaxKind::UseTargetWildcard, |this2| {\n                        this2.bump(); // consume '*'\n                    });\n                    return;",
         "                if this.check(TokenKind::OpProduct) {\n                    this.builder.start_node(SyntaxKind::UseTargetWildcard);\n                    this.bump();\n                    return;", "verus", "cst_parser"),
        ("ps02", PAR + "cst_parser.rs", "                lhs_marker = Marker {\n                    pos: self.builder.marker().pos.saturating_sub(1),\n                };\n\n                // After parsing infix",
         "                lhs_marker = Marker {\n                    pos: self.builder.marker().pos + 1,\n                };\n\n                // After parsing infix", "verus", "cst_parser"),
        ("ps03", PAR + "cst_parser.rs", "            self.builder.start_node_at(marker, SyntaxKind::UnionType);\n", "", "verus", "cst_parser"),
        ("ps04", PAR + "cst_parser.rs", "                    this.tokens[token_idx].kind = TokenKind::IdentFunction;\n                }\n                this.bump();\n            }\n\n            // Parameters\n            if this.check(TokenKind::ParenBegin) {\n                this.parse_param_list();\n            }\n\n            // Optional return type annotation after '->'",
         "                    this.tokens[token_idx].kind = TokenKind::IdentFunction;\n                    this.tokens[token_idx].length += 1;\n                }\n                this.bump();\n            }\n\n            // Parameters\n            if this.check(TokenKind::ParenBegin) {\n                this.parse_param_list();\n            }\n\n            // Optional return type annotation after '->'", "verus", "cst_parser"),
        ("ps05", PAR + "cst_parser.rs", "                        this.add_error(ParserError::invalid_syntax(\n                            this.current_token_index(),\n                            \"parser made no progress in module; skipping token for recovery\",\n                        ));\n                        this.bump();",
         "                        this.add_error(ParserError::invalid_syntax(\n                            this.current_token_index(),\n                            \"parser made no progress in module; skipping token for recovery\",\n                        ));\n                        this.current += 1;", "verus", "cst_parser"),
        ("ps06", PAR + "cst_parser.rs", "        self.builder.start_node(kind);\n        f(self);\n        self.builder.finish_node();", "        self.builder.start_node(kind);\n        f(self);", "verus", "cst_parser"),
        ("ps07", PAR + "cst_parser.rs", "            Some(kind) if kinds.contains(&kind) => {\n                self.bump();\n                true", "            Some(kind) if kinds.contains(&kind) => {\n                self.current = 0;\n                true", "verus", "cst_parser"),
    ],
    "C17": [
        ("gs01", "crates/lib/mimium-lang/src/ast/program.rs", "                if !module_prefix.is_empty() {\n                    collect_statement_bindings(&statement)", "                if module_prefix.len() > 1 {\n                    collect_statement_bindings(&statement)", "verus", "use_tables"),
        ("gs02", "crates/lib/mimium-lang/src/ast/program.rs", "                                .insert(name, module_prefix.to_vec());\n                        });", "                                .insert(name, module_prefix[1..].to_vec());\n                        });", "verus", "use_tables"),
        ("md01", "crates/lib/mimium-lang/src/ast/program.rs", "                            errs,\n                            &new_prefix,\n                            module_info,\n                        )\n                    }\n                    None => {", "                            errs,\n                            module_prefix,\n                            module_info,\n                        )\n                    }\n                    None => {", "verus", "use_tables"),
        ("md02", "crates/lib/mimium-lang/src/ast/program.rs", "                let mut new_prefix = module_prefix.to_vec();\n                new_prefix.push(name);", "                let mut new_prefix = module_prefix.to_vec();\n                new_prefix.insert(0, name);", "verus", "use_tables"),
        ("md03", "crates/lib/mimium-lang/src/ast/program.rs", "                let restore_decl = (Statement::DeclareStage(current_stage.clone()), module_loc);", "                let restore_decl = (Statement::DeclareStage(StageKind::Main), module_loc);", "verus", "use_tables"),
        ("us01", "crates/lib/mimium-lang/src/ast/program.rs", "                        .contains(&local_module_symbol)\n                        || module_info\n                            .loaded_external_modules\n                            .contains(&absolute_module_symbol)", "                        .contains(&absolute_module_symbol)", "verus", "use_tables"),
        ("us02", "crates/lib/mimium-lang/src/ast/program.rs", "                        let new_prefix = vec![base_module];", "                        let mut new_prefix = module_prefix.to_vec();\n                        new_prefix.push(base_module);", "verus", "use_tables"),
        ("us03", "crates/lib/mimium-lang/src/ast/program.rs", "                            (Statement::DeclareStage(current_stage.clone()), module_loc);\n                        [vec![start_decl]", "                            (Statement::DeclareStage(StageKind::Main), module_loc);\n                        [vec![start_decl]", "verus", "use_tables"),
        ("us04", "crates/lib/mimium-lang/src/ast/program.rs", "                process_use_statement(&visibility, &path, &target, module_prefix, module_info);\n                (!imported_stmts", "                if imported_stmts.is_empty() {\n                    process_use_statement(&visibility, &path, &target, module_prefix, module_info);\n                } else {\n                    process_use_statement(&Visibility::Public, &path, &target, module_prefix, module_info);\n                }\n                (!imported_stmts", "verus", "use_tables"),
        ("us05", "crates/lib/mimium-lang/src/ast/program.rs", "                        module_info\n                            .loaded_external_modules\n                            .insert(absolute_module_symbol);\n", "                        module_info\n                            .loaded_external_modules\n                            .insert(local_module_symbol);\n", "verus", "use_tables"),
        ("us06", "crates/lib/mimium-lang/src/ast/program.rs", "                process_use_statement(&visibility, &path, &target, module_prefix, module_info);\n                (!imported_stmts", "                process_use_statement(&Visibility::Public, &path, &target, module_prefix, module_info);\n                (!imported_stmts", "verus", "use_tables"),
        ("im01", "crates/lib/mimium-lang/src/ast/program.rs", "                    stmts_from_program(imported.program, imported.resolved_path, errs, module_info);", "                    stmts_from_program_with_prefix(imported.program.statements, imported.resolved_path, errs, module_prefix, module_info);", "verus", "use_tables"),
        ("rn01", "crates/lib/mimium-lang/src/compiler/mirgen/convert_qualified_names.rs", "resolved_path.len() < 2", "resolved_path.len() < 1", "verus", "resolve_names"),
        ("rn02", "crates/lib/mimium-lang/src/compiler/mirgen/convert_qualified_names.rs", "self.current_module_context.starts_with(target_module)", "target_module.starts_with(&self.current_module_context)", "verus", "resolve_names"),
        ("rn03", "crates/lib/mimium-lang/src/compiler/mirgen/convert_qualified_names.rs", "        if !is_public && !is_same_module {", "        if !is_public && is_same_module {", "verus", "resolve_names"),
        ("rn04", "crates/lib/mimium-lang/src/compiler/mirgen/convert_qualified_names.rs", "                    if is_public {\n                        return Some(mangled);\n                    }", "                    return Some(mangled);", "verus", "resolve_names"),
        ("rn05", "crates/lib/mimium-lang/src/compiler/mirgen/convert_qualified_names.rs", "            && !is_public\n            && !ctx.is_within_module_hierarchy", "            && is_public\n            && !ctx.is_within_module_hierarchy", "verus", "resolve_names"),
        ("rn06", "crates/lib/mimium-lang/src/compiler/mirgen/convert_qualified_names.rs", "Some(next) if next != current => current = next,", "Some(next) if next != current => current = symbol,", "verus", "resolve_names"),
        ("rn07", "crates/lib/mimium-lang/src/compiler/mirgen/convert_qualified_names.rs", "    if ctx.is_locally_bound(name) {\n        return Expr::Var(name).into_id(loc);\n    }\n", "", "verus", "resolve_names"),
        ("rn08", "crates/lib/mimium-lang/src/compiler/mirgen/convert_qualified_names.rs", "        if !is_public && !ctx.is_within_module_hierarchy(&target_path) {", "        if !is_public && ctx.is_within_module_hierarchy(&target_path) {", "verus", "resolve_names"),
        ("rn09", "crates/lib/mimium-lang/src/ast/program.rs", "        if exists(&relative_mangled) {\n            return (relative_mangled, relative_path);", "        if exists(&relative_mangled) {\n            return (relative_mangled, path_segments.to_vec());", "verus", "resolve_names"),
        ("cn01", "crates/lib/mimium-lang/src/compiler/mirgen/convert_qualified_names.rs", "        Pattern::Single(name) => {\n            names.insert(*name);\n        }", "        Pattern::Single(name) => {\n            let _ = name;\n        }", "verus", "resolve_walk"),
        ("cn02", "crates/lib/mimium-lang/src/compiler/mirgen/convert_qualified_names.rs", "            for (_, p) in fields {\n                collect_names_from_pattern(p, names);", "            for (_, p) in fields {\n                let _ = p;", "verus", "resolve_walk"),
        ("mp01", "crates/lib/mimium-lang/src/compiler/mirgen/convert_qualified_names.rs", "                .for_each(|inner_pat| bind_match_pattern_locals(ctx, inner_pat));", "                .for_each(|inner_pat| { ctx.push_scope(); bind_match_pattern_locals(ctx, inner_pat) });", "verus", "resolve_walk"),
        ("mp02", "crates/lib/mimium-lang/src/compiler/mirgen/convert_qualified_names.rs", "        MatchPattern::Variable(id) => {\n            ctx.bind_local(*id);\n        }", "        MatchPattern::Variable(id) => {\n            ctx.push_scope();\n            ctx.bind_local(*id);\n        }", "verus", "resolve_walk"),
        ("ss01", "crates/lib/mimium-lang/src/compiler/mirgen/convert_qualified_names.rs", "        let _ = self.local_bindings.pop();", "        let _ = self.local_bindings.pop();\n        let _ = self.local_bindings.pop();", "verus", "resolve_walk"),
        ("ss02", "crates/lib/mimium-lang/src/compiler/mirgen/convert_qualified_names.rs", "        if let Some(scope) = self.local_bindings.last_mut() {\n            scope.insert(symbol);", "        if let Some(scope) = self.local_bindings.first_mut() {\n            scope.insert(symbol);", "verus", "resolve_walk"),
        ("ss03", "crates/lib/mimium-lang/src/compiler/mirgen/convert_qualified_names.rs", "        self.local_bindings.push(HashSet::new());", "        if self.local_bindings.is_empty() { self.local_bindings.push(HashSet::new()); }", "verus", "resolve_walk"),
        ("tl01", "crates/lib/mimium-lang/src/compiler/typing.rs", "        if !self.is_public(&name) {\n            return; // Private functions can use private types", "        if self.is_public(&name) {\n            return; // Private functions can use private types", "verus", "type_privacy"),
        ("tp01", "crates/lib/mimium-lang/src/compiler/typing.rs", "                    && let Some(&is_public) = module_info.visibility_map.get(&resolved_name)\n                    && !is_public\n                {\n                    // Type is private - report error for accessing it from outside", "                    && let Some(&is_public) = module_info.visibility_map.get(&resolved_name)\n                    && is_public\n                {\n                    // Type is private - report error for accessing it from outside", "verus", "type_privacy"),
        ("tp02", "crates/lib/mimium-lang/src/compiler/typing.rs", "                    if type_path.len() > 1 {\n                        // This is a module member type", "                    if type_path.len() > 2 {\n                        // This is a module member type", "verus", "type_privacy"),
        ("dp01", "crates/lib/mimium-lang/src/compiler/mirgen/convert_qualified_names.rs", "    let loc = ctx.make_location(e_id);\n\n    match e_id.to_expr().clone() {", "    let loc = ctx.make_location(e_id);\n    ctx.push_scope();\n\n    match e_id.to_expr().clone() {", "verus", "resolve_walk"),
        ("dp02", "crates/lib/mimium-lang/src/compiler/mirgen/convert_qualified_names.rs", "        Expr::Literal(_) | Expr::Error => e_id,", "        Expr::Literal(_) | Expr::Error => {\n            ctx.current_module_context.clear();\n            e_id\n        }", "verus", "resolve_walk"),
        ("rw10", "crates/lib/mimium-lang/src/compiler/mirgen/convert_qualified_names.rs", "            let new_rhs = convert_expr(ctx, rhs);", "            let new_rhs = rhs;", "verus", "resolve_walk"),
        ("rw11", "crates/lib/mimium-lang/src/compiler/mirgen/convert_qualified_names.rs", "            // Unwrap parenthesized expressions\n            convert_expr(ctx, e)", "            // Unwrap parenthesized expressions\n            e", "verus", "resolve_walk"),
        ("rw12", "crates/lib/mimium-lang/src/compiler/mirgen/convert_qualified_names.rs", "            Expr::Apply(new_fun, new_args).into_id(loc)", "            Expr::Apply(fun, new_args).into_id(loc)", "verus", "resolve_walk"),
        ("rw13", "crates/lib/mimium-lang/src/compiler/mirgen/convert_qualified_names.rs", "            let new_else = opt_else.map(|e| convert_expr(ctx, e));", "            let new_else = opt_else;", "verus", "resolve_walk"),
        ("rw14", "crates/lib/mimium-lang/src/compiler/mirgen/convert_qualified_names.rs", "            Expr::RecordUpdate(new_record, new_fields).into_id(loc)", "            Expr::RecordLiteral(new_fields).into_id(loc)", "verus", "resolve_walk"),
        ("rw15", "crates/lib/mimium-lang/src/compiler/mirgen/convert_qualified_names.rs", "            Expr::Assign(new_target, new_value).into_id(loc)", "            Expr::Assign(new_value, new_target).into_id(loc)", "verus", "resolve_walk"),
        ("rw16", "crates/lib/mimium-lang/src/compiler/mirgen/convert_qualified_names.rs", "            let new_v: Vec<_> = v.into_iter().map(|e| convert_expr(ctx, e)).collect();", "            let new_v: Vec<_> = v.into_iter().map(|e| { ctx.push_scope(); let c = convert_expr(ctx, e); c }).collect();", "verus", "resolve_walk"),
        ("rw01", "crates/lib/mimium-lang/src/compiler/mirgen/convert_qualified_names.rs", "            let new_body = convert_expr(ctx, body);\n            // The module context of a module-level `let` applies to its own right-hand side only:\n            // restore the enclosing context before converting the rest of the chain.\n            ctx.current_module_context = prev_context;\n            let new_then = then.map(|t| {\n                ctx.push_scope();\n                ctx.bind_pattern_locals(&pat.pat);\n                let converted = convert_expr(ctx, t);\n                ctx.pop_scope();\n                converted\n            });\n",
         "            let new_body = convert_expr(ctx, body);\n            let new_then = then.map(|t| {\n                ctx.push_scope();\n                ctx.bind_pattern_locals(&pat.pat);\n                let converted = convert_expr(ctx, t);\n                ctx.pop_scope();\n                converted\n            });\n            ctx.current_module_context = prev_context;\n", "verus", "resolve_walk"),
        ("rw02", "crates/lib/mimium-lang/src/compiler/mirgen/convert_qualified_names.rs", "                ctx.push_scope();\n                ctx.bind_pattern_locals(&pat.pat);\n                let converted = convert_expr(ctx, t);", "                ctx.push_scope();\n                let converted = convert_expr(ctx, t);", "verus", "resolve_walk"),
        ("rw03", "crates/lib/mimium-lang/src/compiler/mirgen/convert_qualified_names.rs", "            for param in &params {\n                ctx.bind_local(param.id);\n            }", "            for param in &params {\n                let _ = param;\n            }", "verus", "resolve_walk"),
        ("rw04", "crates/lib/mimium-lang/src/compiler/mirgen/convert_qualified_names.rs", "            let new_then = then.map(|t| convert_expr(ctx, t));\n            ctx.pop_scope();\n            Expr::LetRec(id, new_body, new_then).into_id(loc)", "            ctx.pop_scope();\n            let new_then = then.map(|t| convert_expr(ctx, t));\n            Expr::LetRec(id, new_body, new_then).into_id(loc)", "verus", "resolve_walk"),
        ("rw05", "crates/lib/mimium-lang/src/compiler/mirgen/convert_qualified_names.rs", "            if let Some(new_context) = ctx.module_info.module_context_map.get(&name) {\n                ctx.current_module_context = new_context.clone();\n            }\n\n            let new_body = convert_expr(ctx, body);\n\n            // Restore context\n            ctx.current_module_context = prev_context;", "            if let Some(new_context) = ctx.module_info.module_context_map.get(&name) {\n                ctx.current_module_context = new_context.clone();\n            }\n\n            let new_body = convert_expr(ctx, body);", "verus", "resolve_walk"),
        ("rw06", "crates/lib/mimium-lang/src/compiler/mirgen/convert_qualified_names.rs", "                    ctx.push_scope();\n                    bind_match_pattern_locals(ctx, &arm.pattern);\n                    let body", "                    ctx.push_scope();\n                    let body", "verus", "resolve_walk"),
        ("rw07", "crates/lib/mimium-lang/src/compiler/mirgen/convert_qualified_names.rs", "                    let body = convert_expr(ctx, arm.body);\n                    ctx.pop_scope();\n                    crate::ast::MatchArm", "                    let body = convert_expr(ctx, arm.body);\n                    crate::ast::MatchArm", "verus", "resolve_walk"),
        ("rn10", "crates/lib/mimium-lang/src/compiler/mirgen/convert_qualified_names.rs", "            .any(|scope| scope.contains(&name))", "            .any(|scope| !scope.contains(&name))", "verus", "resolve_names"),
        ("rn11", "crates/lib/mimium-lang/src/compiler/mirgen/convert_qualified_names.rs", "                let mut relative_path = ctx.current_module_context[..prefix_len].to_vec();", "                let mut relative_path = ctx.current_module_context[..1].to_vec();", "verus", "resolve_names"),
        ("ut01", "crates/lib/mimium-lang/src/ast/program.rs", "        if *visibility == Visibility::Public {\n            let exported_name", "        if *visibility != Visibility::Public {\n            let exported_name", "verus", "use_tables"),
        ("ut02", "crates/lib/mimium-lang/src/ast/program.rs", "            module_info.visibility_map.insert(exported_name, true);", "            module_info.visibility_map.insert(exported_name, true);\n            module_info.visibility_map.insert(mangled, true);", "verus", "use_tables"),
        ("ut03", "crates/lib/mimium-lang/src/ast/program.rs", "        module_info.use_alias_map.insert(alias_name, mangled);\n\n", "        module_info.use_alias_map.insert(mangled, alias_name);\n\n", "verus", "use_tables"),
        ("ut04", "crates/lib/mimium-lang/src/ast/program.rs", "                full_path.push(*name);\n", "", "verus", "use_tables"),
        ("ut05", "crates/lib/mimium-lang/src/ast/program.rs", "            let base_mangled = if path.segments.is_empty() {", "            let base_mangled = if !path.segments.is_empty() {", "verus", "use_tables"),
        ("ut06", "crates/lib/mimium-lang/src/ast/program.rs", "                register_alias(module_info, visibility, module_prefix, *name, mangled);", "                register_alias(module_info, &Visibility::Public, module_prefix, *name, mangled);", "verus", "use_tables"),
        ("ut07", "crates/lib/mimium-lang/src/ast/program.rs", "        name\n    } else {\n        let path_str = prefix", "        name\n    } else if prefix.len() > 1 {\n        name\n    } else {\n        let path_str = prefix", "verus", "use_tables"),
        ("ut08", "crates/lib/mimium-lang/src/ast/program.rs", "                module_info.type_aliases.insert(mangled_name, target_type);\n                // Track visibility for all type aliases (both module members and top-level)\n                module_info\n                    .visibility_map\n                    .insert(mangled_name, visibility == Visibility::Public);",
         "                module_info.type_aliases.insert(mangled_name, target_type);\n                // Track visibility for all type aliases (both module members and top-level)\n                module_info\n                    .visibility_map\n                    .insert(mangled_name, true);", "verus", "use_tables"),
        ("ut09", "crates/lib/mimium-lang/src/ast/program.rs", "                // Use mangled name if inside a module\n                let mangled_name = mangle_qualified_name(module_prefix, name);\n                // Track visibility for all functions (both module members and top-level)\n                module_info\n                    .visibility_map\n                    .insert(mangled_name, visibility == Visibility::Public);",
         "                // Use mangled name if inside a module\n                let mangled_name = mangle_qualified_name(module_prefix, name);\n                // Track visibility for all functions (both module members and top-level)\n                module_info\n                    .visibility_map\n                    .insert(name, visibility == Visibility::Public);", "verus", "use_tables"),
        ("ut10", "crates/lib/mimium-lang/src/ast/program.rs", "                // Track visibility for type declarations\n                module_info\n                    .visibility_map\n                    .insert(mangled_name, visibility == Visibility::Public);", "                // Track visibility for type declarations\n                module_info\n                    .visibility_map\n                    .entry(mangled_name).or_insert(visibility == Visibility::Public);", "verus", "use_tables"),
        ("ut11", "crates/lib/mimium-lang/src/ast/program.rs", "                        TypedId::new(mangled_name, fnty),", "                        TypedId::new(name, fnty),", "verus", "use_tables"),
    ],
    "C20": [
        ("iv01", "crates/lib/mimium-lang/src/compiler/mirgen.rs", "        crate::interpreter::Value::Code(expr) => machine.alloc_code(expr),\n        _ => panic!(\"unexpected return value type from macro {name}\"),", "        crate::interpreter::Value::Code(expr) => machine.alloc_code(expr),\n        crate::interpreter::Value::ErrorV(expr) => machine.alloc_code(expr),\n        _ => panic!(\"unexpected return value type from macro {name}\"),", "verus", "ffi_serde"),
        ("iv02", "crates/lib/mimium-lang/src/compiler/mirgen.rs", "        crate::interpreter::Value::Number(n) => n.to_bits(),\n        crate::interpreter::Value::String(s) => {\n            machine.prog.strings.push(s.as_str().to_string());", "        crate::interpreter::Value::Number(n) => n.to_bits() | 1,\n        crate::interpreter::Value::String(s) => {\n            machine.prog.strings.push(s.as_str().to_string());", "verus", "ffi_serde"),
        ("se01", "crates/lib/mimium-lang/src/types/serde_impl.rs", 'serialize_struct_variant("Type", 2, "Tuple", 1)', 'serialize_struct_variant("Type", 7, "Tuple", 1)', "verus", "serde_enums"),
        ("se02", "crates/lib/mimium-lang/src/types/serde_impl.rs", '                sv.serialize_field("arg", arg)?;\n                sv.serialize_field("ret", ret)?;', '                sv.serialize_field("ret", ret)?;\n                sv.serialize_field("arg", arg)?;', "verus", "serde_enums"),
        ("se03", "crates/lib/mimium-lang/src/types/serde_impl.rs", "                        Ok(Type::Ref(t))", "                        Ok(Type::Code(t))", "verus", "serde_enums"),
        ("se04", "crates/lib/mimium-lang/src/types/serde_impl.rs", "            Ref,\n            Code,\n", "            Code,\n            Ref,\n", "verus", "serde_enums"),
        ("se05", "crates/lib/mimium-lang/src/interpreter/serde_impl.rs", "                        Ok(Value::Tuple(tuple))", "                        Ok(Value::Array(tuple))", "verus", "serde_enums"),
        ("se06", "crates/lib/mimium-lang/src/interpreter/serde_impl.rs", '                sv.serialize_field("0", tag)?;\n                sv.serialize_field("1", val)?;', '                sv.serialize_field("1", val)?;\n                sv.serialize_field("0", tag)?;', "verus", "serde_enums"),
        ("se07", "crates/lib/mimium-lang/src/interpreter/serde_impl.rs", "                        Ok(Value::Fixpoint(fields.0, fields.1))", "                        Ok(Value::Code(fields.1))", "verus", "serde_enums"),
        ("se08", "crates/lib/mimium-lang/src/types/serde_impl.rs", '            Type::Unknown => serializer.serialize_unit_variant("Type", 13, "Unknown"),', '            Type::Unknown => serializer.serialize_unit_variant("Type", 12, "Unknown"),', "verus", "serde_enums"),
        ("ff01", RT + "ffi_serde.rs", "            Value::Store(_) => {\n                Err(\"Mutable stores cannot be serialized across FFI boundaries\".to_string())\n            }", "            Value::Store(_) => Ok(FfiValue::Unit),", "verus", "ffi_serde"),
        ("ff02", RT + "ffi_serde.rs", "FfiValue::Tuple(t) => Value::Tuple(", "FfiValue::Tuple(t) => Value::Array(", "verus", "ffi_serde"),
        ("ff03", RT + "ffi_serde.rs", "Ok(FfiValue::TaggedUnion(*tag, Box::new(val.to_ffi_value()?)))", "Ok(FfiValue::TaggedUnion(*tag + 1, Box::new(val.to_ffi_value()?)))", "verus", "ffi_serde"),
        ("ff04", RT + "ffi_serde.rs", "(k.to_symbol(), v.to_value())", "(k.to_symbol(), Value::Unit)", "verus", "ffi_serde"),
        ("ff05", RT + "ffi_serde.rs", "            Value::Number(n) => Ok(FfiValue::Number(*n)),", "            Value::Number(n) => Ok(FfiValue::Number(*n + 0.0)),", "verus", "ffi_serde"),
        ("ff06", RT + "ffi_serde.rs", "            FfiValue::String(s) => Value::String(s.to_symbol()),", "            FfiValue::String(s) => Value::String(\"\".to_string().to_symbol()),", "verus", "ffi_serde"),
        ("ff07", RT + "ffi_serde.rs", "            Value::ErrorV(_) => {\n                Err(\"Error values cannot be serialized across FFI boundaries\".to_string())\n            }", "            Value::ErrorV(_) => Ok(FfiValue::ErrorV),", "verus", "ffi_serde"),
        ("ff08", RT + "ffi_serde.rs", "    let ffi_args = ffi_args?;\n    bincode::serialize(&ffi_args)", "    let ffi_args = ffi_args.unwrap_or_default();\n    bincode::serialize(&ffi_args)", "verus", "ffi_serde"),
    ],
}


# Semantics-preserving edits (renamed local, commuted operands, an added comment, a statement split in two): none of them may
# turn an obligation red.  `ok` and `undecided` (lost anchor -> exit 2) are both acceptable; `violation` would be a false alarm.
MG = "crates/lib/mimium-lang/src/compiler/mirgen.rs"
CQ = "crates/lib/mimium-lang/src/compiler/mirgen/convert_qualified_names.rs"
NEUTRAL = {
    "C08": [
        ("nt-st1", ST + "patch.rs", "let dst_end = patch.dst_addr + patch.size;", "let dst_end = patch.size + patch.dst_addr;", "state_tree"),
        ("nt-st2", ST + "lib.rs", "let total_size = new_state_skeleton", "/* words of the new layout */ let total_size = new_state_skeleton", "state_tree"),
        ("nt-wm1", "crates/lib/mimium-lang/src/runtime/wasm/engine.rs", "                        log::info!(\"No state structure change detected, copying buffer\");\n                        next_global_state = old_data.clone();", "                        log::info!(\"No state structure change detected, copying buffer\");\n                        let copied = old_data.clone();\n                        next_global_state = copied;", "state_tree"),
        ("nt-rs1", "crates/lib/mimium-lang/src/runtime/vm.rs", "            log::info!(\"No state structure change detected. Just copies buffer\");", "            // identical layouts\n            log::info!(\"No state structure change detected. Just copies buffer\");", "state_tree"),
    ],
    "C05": [
        ("nt-vs1", "crates/lib/mimium-lang/src/runtime/vm.rs", "        state_storage.resize(fnproto.state_skeleton.total_size() as usize);", "        let words = fnproto.state_skeleton.total_size() as usize;\n        state_storage.resize(words);", "vm_storage"),
        ("nt-sy1", "crates/lib/mimium-lang/src/mir.rs", "            Type::Array(_elem_ty) => StateType(1),", "            Type::Array(_) => StateType(1),", "state_type"),
        ("nt-bs1", "crates/lib/mimium-lang/src/compiler/bytecodegen.rs", "            mir::Instruction::PushStateOffset(v) => {\n                let state_size = StateOffset::try_from(v).expect(\"too much large state offset.\");\n                Some(VmInstruction::PushStatePos(state_size))", "            mir::Instruction::PushStateOffset(v) => {\n                let words = StateOffset::try_from(v).expect(\"too much large state offset.\");\n                Some(VmInstruction::PushStatePos(words))", "backend_state"),
        ("nt-ws1", "crates/lib/mimium-lang/src/runtime/wasm.rs", "        let delta_u64 = offset.unsigned_abs();\n        let delta = usize::try_from(delta_u64).unwrap_or(usize::MAX);\n        current.pos = current.pos.saturating_sub(delta);", "        let back = offset.unsigned_abs();\n        let delta = usize::try_from(back).unwrap_or(usize::MAX);\n        current.pos = current.pos.saturating_sub(delta);", "wasm_state"),
        ("nt-ms1", MG, "                let (array_v, _array_ty, states) = self.eval_expr(*array);\n                let (index_v, _ty, states2) = self.eval_expr(*index);", "                let (array_v, _array_ty, states) = self.eval_expr(*array);\n                // the index is evaluated after the array\n                let (index_v, _ty, states2) = self.eval_expr(*index);", "mirgen_state"),
    ],
    "C11": [
        ("nt-sc1", SCH + "scheduler.rs", "                let res = Some(*closure);\n                let _ = self.tasks.pop();\n                res", "                let due = Some(*closure);\n                let _ = self.tasks.pop();\n                due", "scheduler"),
    ],
    "C12": [
        ("nt-rc1", MG, "                        let value = self.push_inst(Instruction::Load(ptr, ty));\n                        self.insert_release_recursively(value, ty);", "                        let loaded = self.push_inst(Instruction::Load(ptr, ty));\n                        self.insert_release_recursively(loaded, ty);", "mirgen_rc"),
        ("nt-hp2", RT + "vm/heap.rs", "        if obj.refcount == 0 {\n            log::trace!(\"heap_release: freeing {idx:?}\");\n            storage.remove(idx);", "        if 0 == obj.refcount {\n            storage.remove(idx);", "heap"),
        ("nt-hp1", RT + "vm/heap.rs", "pub fn heap_retain(", "/// (retain)\npub fn heap_retain(", "heap"),
    ],
    "C13": [
        ("nt-tk1", PAR + "token.rs", "        self.start + self.length\n", "        self.length + self.start\n", "parser_tokens"),
    ],
    "C17": [
        ("nt-rw1", CQ, "            let new_lhs = convert_expr(ctx, lhs);\n            let new_rhs = convert_expr(ctx, rhs);\n            Expr::BinOp(new_lhs, op, new_rhs).into_id(loc)", "            let l = convert_expr(ctx, lhs);\n            let r = convert_expr(ctx, rhs);\n            Expr::BinOp(l, op, r).into_id(loc)", "resolve_walk"),
        ("nt-rw2", CQ, "        let _ = self.local_bindings.pop();", "        self.local_bindings.pop();", "resolve_walk"),
        ("nt-rw3", CQ, "        Expr::Proj(e, _) => collect_defined_names(e, names),", "        // projections bind nothing themselves\n        Expr::Proj(e, _) => collect_defined_names(e, names),", "resolve_walk"),
        ("nt-tp1", "crates/lib/mimium-lang/src/compiler/typing.rs", "                        let type_name = type_path.last().unwrap().to_symbol();\n\n                        // Report error for private type access", "                        let type_name = type_path.last().unwrap().to_symbol();\n\n                        // Report the access to the private type", "type_privacy"),
        ("nt-im1", "crates/lib/mimium-lang/src/ast/program.rs", "                let res =\n                    stmts_from_program(imported.program, imported.resolved_path, errs, module_info);\n                Some(res)", "                let included =\n                    stmts_from_program(imported.program, imported.resolved_path, errs, module_info);\n                (!included.is_empty()).then_some(included)", "use_tables"),
    ],
    "C20": [
        ("nt-ff1", "crates/lib/mimium-lang/src/runtime/ffi_serde.rs", "            FfiValue::Unit => Value::Unit,\n            FfiValue::Number(n) => Value::Number(n),", "            FfiValue::Number(x) => Value::Number(x),\n            FfiValue::Unit => Value::Unit,", "ffi_serde"),
    ],
}


def run_neutral(prop, cfg, here, out, repo):
    """every NEUTRAL edit on a scratch copy: returns {applied, ok, undecided, false_alarms}"""
    edits = NEUTRAL.get(prop, [])
    if not edits:
        return None
    paths = _files_needed(here, cfg)
    base = os.path.join(out, "selftest")
    os.makedirs(base, exist_ok=True)
    res = {"applied": 0, "ok": [], "undecided": [], "false_alarms": [], "not_applied": [],
           "note": "semantics-preserving edits on a scratch copy: a red obligation here would be a false alarm of the machinery"}

    def one(e):
        eid, path, old, new, unit = e
        sc = make_scratch(repo, paths, base)
        try:
            fp = os.path.join(sc, path)
            txt = open(fp).read()
            if txt.count(old) < 1:
                return eid, "not_applied", ""
            open(fp, "w").write(txt.replace(old, new, 1))
            od = os.path.join(sc, "_out")
            os.makedirs(od, exist_ok=True)
            r = run_unit(unit, os.path.join(here, "contracts", unit + ".vrs"), od, 30, None, False, None, sc, threads=2)
            if r.status == "violation":
                return eid, "false_alarms", "; ".join(f"{f['fn']}::{f['kind']}" for f in r.failed[:3])
            return eid, ("ok" if r.status == "ok" else "undecided"), (r.reason or "")[:120]
        finally:
            shutil.rmtree(sc, ignore_errors=True)

    with cf.ThreadPoolExecutor(max_workers=6) as ex:
        for eid, st, info in ex.map(one, edits):
            if st != "not_applied":
                res["applied"] += 1
            res[st].append(eid if not info or st == "ok" else f"{eid}: {info}")
    return res


def _files_needed(here, cfg):
    paths = set()
    for u in cfg.get("verus_units", []):
        t = open(os.path.join(here, "contracts", u + ".vrs")).read()
        for inc in re.findall(r"//@ include (\S+)", t):
            t += open(os.path.join(here, "contracts", inc)).read()
        paths |= set(re.findall(r"//@ cut (\S+) ::", t))
    for ku in cfg.get("kani_units", []):
        d = os.path.join(here, "kani", ku["unit"])
        for root, _, names in os.walk(d):
            for nm in names:
                t = open(os.path.join(root, nm)).read()
                paths |= set(re.findall(r"//@KCUT(?:_X1|_ARM)? (\S+) ::", t))
                paths |= set(re.findall(r'@REPO@/([^"]+)"', t))
    return paths


def make_scratch(repo, paths, base):
    d = tempfile.mkdtemp(prefix="vx-selftest-", dir=base)
    for p in paths:
        src = os.path.join(repo, p)
        dst = os.path.join(d, p)
        os.makedirs(os.path.dirname(dst), exist_ok=True)
        shutil.copy(src, dst)
    if os.path.exists(os.path.join(repo, "Cargo.lock")):
        shutil.copy(os.path.join(repo, "Cargo.lock"), os.path.join(d, "Cargo.lock"))
    return d


def run(prop, cfg, here, out, repo, only=None):
    edits = EDITS.get(prop, [])
    if only:
        edits = [e for e in edits if e[0] in only]
    if not edits:
        return None
    paths = _files_needed(here, cfg)
    base = os.path.join(out, "selftest")
    os.makedirs(base, exist_ok=True)
    caught, missed, not_applied, undecided, details = [], [], [], [], []

    def one(e):
        eid, path, old, new, kind, unit = e[:6]
        sc = make_scratch(repo, paths, base)
        try:
            fp = os.path.join(sc, path)
            txt = open(fp).read()
            if txt.count(old) < 1:
                return eid, "not-applied", "anchor text not found"
            open(fp, "w").write(txt.replace(old, new, 1))
            red = []
            und = ""
            if kind in ("verus", "both"):
                od = os.path.join(sc, "_out")
                os.makedirs(od, exist_ok=True)
                r = run_unit(unit, os.path.join(here, "contracts", unit + ".vrs"), od, 30, None, False, None, sc, threads=2)
                if r.status == "violation":
                    red += [f"{f['fn']}::{f['kind']}" for f in r.failed]
                elif r.status == "undecided":
                    red += []  # undecided does not count as caught
                    und = r.reason
            if kind in ("kani", "both"):
                for ku in cfg.get("kani_units", []):
                    rs = K.run_kani(ku["unit"], ku["harnesses"], here, os.path.join(sc, "_out"), sc,
                                    dict(ku.get("subst_quick", {})), "", instance="st-" + eid, timeout=1500)
                    for r in rs:
                        if r["status"] == "violation":
                            red.append(r["harness"])
            if not red and und:
                return eid, "undecided", und[:200]
            return eid, ("caught" if red else "missed"), sorted(set(red))[:6]
        finally:
            shutil.rmtree(sc, ignore_errors=True)

    with cf.ThreadPoolExecutor(max_workers=6) as ex:
        for eid, st, info in ex.map(one, edits):
            details.append({"edit": eid, "result": st, "obligations": info})
            (caught if st == "caught" else missed if st == "missed" else undecided if st == "undecided" else not_applied).append(eid)
    shutil.rmtree(base, ignore_errors=True)
    return {"applied": len(caught) + len(missed) + len(undecided), "caught": len(caught), "missed": missed,
            "undecided": undecided, "not_applied": not_applied, "details": details,
            "note": "edits are applied to a scratch copy of the files under contract, never to /repo"}
