"""Contract-strength self-test (thorough tier): a fixed list of semantic edits is applied to a
scratch COPY of the files under contract (never to /repo) and the units are re-run against the
copy; every edit must turn an obligation red.  The result is reported in evidence
(coverage.self_test); a miss is a weakness of the machinery and never an alarm about /repo."""
import concurrent.futures as cf
import os
import re
import shutil
import tempfile

from .verus_run import run_unit
from . import kani_run as K

ST = "crates/lib/mimium-lang/state-tree/src/"
RT = "crates/lib/mimium-lang/src/runtime/"
SCH = "crates/lib/plugins/mimium-scheduler/src/"
PAR = "crates/lib/mimium-lang/src/compiler/parser/"

# (id, file, old, new, kind, unit[, harnesses])
EDITS = {
    "C08": [
        ("st01", ST + "tree.rs", ".take(child_idx)", ".take(child_idx + 1)", "verus", "state_tree"),
        ("st02", ST + "tree.rs", "if child_idx >= children.len() {", "if child_idx > children.len() {", "verus", "state_tree"),
        ("st03", ST + "tree.rs", "DELAY_ADDITIONAL_OFFSET as u64 + *len", "*len", "verus", "state_tree"),
        ("st04", ST + "tree.rs", "Some((offset as usize + child_offset, size))", "Some((child_offset, size))", "verus", "state_tree"),
        ("st05", ST + "tree_diff.rs", "len1 == len2", "len1 >= len2", "verus", "state_tree"),
        ("st06", ST + "tree_diff.rs", "c1.len() == c2.len() && ", "", "verus", "state_tree"),
        ("st07", ST + "tree_diff.rs", "o == old_index && n == new_index", "o == old_index", "verus", "state_tree"),
        ("st08", ST + "tree_diff.rs", ".path_to_address(&new_path)", ".path_to_address(&old_path)", "verus", "state_tree"),
        ("st09", ST + "tree_diff.rs", "                i -= 1;\n                j -= 1;", "                i -= 1;", "verus", "state_tree"),
        ("st10", ST + "tree_diff.rs", "results.push(DiffResult::Insert { new_index: j - 1 });\n                j -= 1;\n            } else if i > 0 {",
         "results.push(DiffResult::Insert { new_index: j });\n                j -= 1;\n            } else if i > 0 {", "verus", "state_tree"),
        ("st11", ST + "tree_diff.rs", "        } else if i > 0 {\n            results.push(DiffResult::Delete { old_index: i - 1 });", "        } else if i > 0 {\n            results.push(DiffResult::Delete { old_index: i });", "verus", "state_tree"),
        ("st12", ST + "tree_diff.rs", "build_patches_recursive(old_skeleton, new_skeleton, vec![], vec![])", "build_patches_recursive(old_skeleton, new_skeleton, vec![0], vec![])", "verus", "state_tree"),
        ("st13", ST + "patch.rs", "let dst_end = patch.dst_addr + patch.size;", "let dst_end = patch.dst_addr + patch.size + 1;", "verus", "state_tree"),
        ("st14", ST + "patch.rs", "&old_storage[patch.src_addr..src_end]", "&old_storage[patch.dst_addr..dst_end]", "verus", "state_tree"),
        ("st15", ST + "lib.rs", "let total_size = new_state_skeleton", "let total_size = old_state_skeleton", "verus", "state_tree"),
        ("st16", ST + "lib.rs", "if old_state_skeleton == new_state_skeleton {", "if old_state_skeleton != new_state_skeleton {", "verus", "state_tree"),
        ("st17", ST + "lib.rs", "vec![0u64; patch_plan.total_size]", "vec![1u64; patch_plan.total_size]", "verus", "state_tree"),
        ("st18", ST + "tree_diff.rs", "size,\n        }]", "size: size + 1,\n        }]", "verus", "state_tree"),
        ("st19", ST + "tree_diff.rs", "child_patches_map.push(((old_idx, new_idx), patches, score));", "child_patches_map.push(((new_idx, old_idx), patches, score));", "verus", "state_tree"),
    ],
    "C05": [
        ("rb01", RT + "vm/ringbuffer.rs", "*self.write_idx = (write_idx + 1) % len;", "*self.write_idx = write_idx + 1;", "kani", "runtime"),
        ("rb02", RT + "vm/ringbuffer.rs", "let read_idx = (write_idx + len - delay_samples) % len;", "let read_idx = (write_idx + len - delay_samples - 1) % len;", "kani", "runtime"),
        ("rb03", RT + "vm/ringbuffer.rs", "let data_head = head.offset(2);", "let data_head = head.offset(1);", "kani", "runtime"),
        ("rb04", RT + "vm/ringbuffer.rs", "let max_delay = (len - 1) as f64;", "let max_delay = len as f64;", "kani", "runtime"),
        ("vm01", RT + "vm.rs", "let head = self.rawdata.as_ptr().add(self.pos);", "let head = self.rawdata.as_ptr().add(self.pos + 1);", "kani", "runtime"),
        ("vm02", RT + "vm.rs", "self.pos = (self.pos as u64 - (std::convert::Into::<u64>::into(offset))) as usize;", "self.pos = (self.pos as u64 - (std::convert::Into::<u64>::into(offset)) + 1) as usize;", "kani", "runtime"),
        ("wa01", RT + "wasm.rs", "current.data[pos + 1] = (write_idx + 1) % len;", "current.data[pos + 1] = write_idx + 1;", "kani", "runtime"),
        ("wa02", RT + "wasm.rs", "let write_idx = current.data[pos + 1] % len;", "let write_idx = current.data[pos] % len;", "kani", "runtime"),
        ("wa03", RT + "wasm.rs", "    current.data[pos] = input.to_bits();\n\n    old_value", "    current.data[pos] = old_bits;\n\n    old_value", "kani", "runtime"),
        ("wa04", RT + "wasm.rs", "        current.pos = current.pos.saturating_sub(delta);\n    } else {\n        let delta_u64 = offset.unsigned_abs();\n        let delta = usize::try_from(delta_u64).unwrap_or(usize::MAX);\n        current.pos = current.pos.saturating_add(delta);",
         "        current.pos = current.pos.saturating_sub(delta + 1);\n    } else {\n        let delta_u64 = offset.unsigned_abs();\n        let delta = usize::try_from(delta_u64).unwrap_or(usize::MAX);\n        current.pos = current.pos.saturating_add(delta);", "kani", "runtime"),
        ("st01", ST + "tree.rs", ".take(child_idx)", ".take(child_idx + 1)", "verus", "state_tree"),
        ("st03", ST + "tree.rs", "DELAY_ADDITIONAL_OFFSET as u64 + *len", "*len", "verus", "state_tree"),
    ],
    "C12": [
        ("hp01", RT + "vm/heap.rs", "        obj.refcount -= 1;\n        log::trace!(\"heap_release: {:?} refcount -> {}\", idx, obj.refcount);", "        obj.refcount -= 2;\n        log::trace!(\"heap_release: {:?} refcount -> {}\", idx, obj.refcount);", "both", "heap"),
        ("hp02", RT + "vm/heap.rs", "        if obj.refcount == 0 {\n            log::trace!(\"heap_release: freeing {idx:?}\");", "        if obj.refcount <= 1 {\n            log::trace!(\"heap_release: freeing {idx:?}\");", "both", "heap"),
        ("hp03", RT + "vm/heap.rs", "obj.refcount += 1;", "obj.refcount += 2;", "both", "heap"),
        ("hp04", RT + "vm/heap.rs", "        log::trace!(\"heap_release_closure: freeing {idx:?}\");\n        storage.remove(idx);", "        log::trace!(\"heap_release_closure: freeing {idx:?}\");", "both", "heap"),
        ("hp05", RT + "vm/heap.rs", "            refcount: 1,\n            size,\n            data: vec![0; size],", "            refcount: 0,\n            size,\n            data: vec![0; size],", "verus", "heap"),
        ("hp06", RT + "vm/heap.rs", "        obj.refcount == 0\n    } else {", "        obj.refcount <= 1\n    } else {", "both", "heap"),
    ],
}


def _files_needed(here, cfg):
    paths = set()
    for u in cfg.get("verus_units", []):
        t = open(os.path.join(here, "contracts", u + ".vrs")).read()
        paths |= set(re.findall(r"//@ cut (\S+) ::", t))
    for ku in cfg.get("kani_units", []):
        d = os.path.join(here, "kani", ku["unit"])
        for root, _, names in os.walk(d):
            for nm in names:
                t = open(os.path.join(root, nm)).read()
                paths |= set(re.findall(r"//@KCUT(?:_X1)? (\S+) ::", t))
                paths |= set(re.findall(r'@REPO@/([^"]+)"', t))
    return paths


def make_scratch(repo, paths, base):
    d = tempfile.mkdtemp(prefix="vx-selftest-", dir=base)
    for p in paths:
        src = os.path.join(repo, p)
        dst = os.path.join(d, p)
        os.makedirs(os.path.dirname(dst), exist_ok=True)
        shutil.copy(src, dst)
    if os.path.exists(os.path.join(repo, "Cargo.lock")):
        shutil.copy(os.path.join(repo, "Cargo.lock"), os.path.join(d, "Cargo.lock"))
    return d


def run(prop, cfg, here, out, repo, only=None):
    edits = EDITS.get(prop, [])
    if only:
        edits = [e for e in edits if e[0] in only]
    if not edits:
        return None
    paths = _files_needed(here, cfg)
    base = os.path.join(out, "selftest")
    os.makedirs(base, exist_ok=True)
    caught, missed, not_applied, details = [], [], [], []

    def one(e):
        eid, path, old, new, kind, unit = e[:6]
        sc = make_scratch(repo, paths, base)
        try:
            fp = os.path.join(sc, path)
            txt = open(fp).read()
            if txt.count(old) < 1:
                return eid, "not-applied", "anchor text not found"
            open(fp, "w").write(txt.replace(old, new, 1))
            red = []
            if kind in ("verus", "both"):
                od = os.path.join(sc, "_out")
                os.makedirs(od, exist_ok=True)
                r = run_unit(unit, os.path.join(here, "contracts", unit + ".vrs"), od, 30, None, False, None, sc, threads=2)
                if r.status == "violation":
                    red += [f"{f['fn']}::{f['kind']}" for f in r.failed]
                elif r.status == "undecided":
                    red += []  # undecided does not count as caught
                    und = r.reason
            if kind in ("kani", "both"):
                for ku in cfg.get("kani_units", []):
                    rs = K.run_kani(ku["unit"], ku["harnesses"], here, os.path.join(sc, "_out"), sc,
                                    dict(ku.get("subst_quick", {})), "", instance="st-" + eid, timeout=1500)
                    for r in rs:
                        if r["status"] == "violation":
                            red.append(r["harness"])
            return eid, ("caught" if red else "missed"), sorted(set(red))[:6]
        finally:
            shutil.rmtree(sc, ignore_errors=True)

    with cf.ThreadPoolExecutor(max_workers=6) as ex:
        for eid, st, info in ex.map(one, edits):
            details.append({"edit": eid, "result": st, "obligations": info})
            (caught if st == "caught" else missed if st == "missed" else not_applied).append(eid)
    shutil.rmtree(base, ignore_errors=True)
    return {"applied": len(caught) + len(missed), "caught": len(caught), "missed": missed,
            "not_applied": not_applied, "details": details,
            "note": "edits are applied to a scratch copy of the files under contract, never to /repo"}
