def run(prop, cfg, here, out, repo):
    return None
