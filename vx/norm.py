"""`vx norm` — closed set of local, syntactic desugarings applied to text destined for Verus.

Every rule is a source-to-source rewrite whose two sides are equal by the Rust reference
(or, for N3/N7, by the documented meaning of one std function — these are listed as trusted).
Each rule re-lexes the text, performs *all* of its applications and returns the new text and a
log of what it did.  Sub-expressions are copied verbatim, so an edit inside a rewritten
construct is carried into the verified text.
"""
import re
from .rustlex import lex

KEEP_DERIVES = {"Clone", "Copy", "PartialEq", "Eq", "Hash", "PartialOrd", "Ord"}
DROP_ATTRS = {"error", "serde", "from", "source", "doc"}
DROP_STMT_MACROS = {("log", "trace"), ("log", "debug"), ("log", "info"), ("log", "warn"),
                    ("log", "error"), ("eprintln",), ("println",), ("eprint",), ("print",)}


class Unsupported(Exception):
    pass


def _apply(src, edits):
    out = src
    for s, e, r in sorted(edits, key=lambda x: -x[0]):
        out = out[:s] + r + out[e:]
    return out


def _split_args(src, toks, o):
    """Split the contents of group opened at token o at top-level commas -> list of text."""
    c = toks[o].mate
    parts, start = [], toks[o].end
    d = toks[o].depth + 1
    for k in range(o + 1, c):
        if toks[k].text == "," and toks[k].depth == d:
            parts.append(src[start:toks[k].start].strip())
            start = toks[k].end
    last = src[start:toks[c].start].strip()
    if last:
        parts.append(last)
    return parts


# ------------------------------------------------------------------------------------------
def n4_macros(src, log, panic_helper=None):
    toks = lex(src)
    edits = []
    i = 0
    while i < len(toks):
        t = toks[i]
        if t.kind == "ident" and i + 2 < len(toks) and toks[i + 1].text == "!" and toks[i + 2].kind == "open":
            name = t.text
            o = i + 2
            c = toks[o].mate
            path = (name,)
            start = i
            if i >= 2 and toks[i - 1].text == "::" and toks[i - 2].kind == "ident":
                path = (toks[i - 2].text, name)
                start = i - 2
            if name in ("debug_assert", "debug_assert_eq", "debug_assert_ne"):
                a = _split_args(src, toks, o)
                if name == "debug_assert":
                    rep = f"assert({a[0]})"
                elif name == "debug_assert_eq":
                    rep = f"assert(({a[0]}) == ({a[1]}))"
                else:
                    rep = f"assert(({a[0]}) != ({a[1]}))"
                edits.append((toks[start].start, toks[c].end, rep))
                log.append(f"N4 {name}! -> proof obligation {rep[:60]}")
                i = c + 1
                continue
            if name == "format" and len(path) == 1:
                edits.append((toks[start].start, toks[c].end, "vx_format()"))
                log.append("N4 format!(..) -> vx_format() [opaque String: message text is not part of any contract]")
                i = c + 1
                continue
            if name in ("panic", "todo", "unimplemented") and panic_helper:
                edits.append((toks[start].start, toks[c].end, f"{panic_helper}()"))
                log.append(f"N4 {name}!(..) -> {panic_helper}() [{'does not return' if panic_helper == 'vx_diverge' else 'obligation: unreachable'}]")
                i = c + 1
                continue
            if path in DROP_STMT_MACROS:
                end = toks[c].end
                if c + 1 < len(toks) and toks[c + 1].text == ";":
                    end = toks[c + 1].end
                    rep = ""
                else:
                    rep = "()"
                edits.append((toks[start].start, end, rep))
                log.append(f"N4 dropped {'::'.join(path)}!(..)")
                i = c + 1
                continue
        i += 1
    return _apply(src, edits)


def n5_derives(src, log):
    toks = lex(src)
    edits = []
    for i, t in enumerate(toks):
        if t.text == "#" and i + 1 < len(toks) and toks[i + 1].text == "[":
            o = i + 1
            c = toks[o].mate
            if o + 1 < c and toks[o + 1].kind == "ident":
                an = toks[o + 1].text
                if an == "derive" and toks[o + 2].text == "(":
                    names = _split_args(src, toks, o + 2)
                    keep = [n for n in names if n.split("::")[-1] in KEEP_DERIVES]
                    if keep != names:
                        rep = f"#[derive({', '.join(keep)})]" if keep else ""
                        edits.append((t.start, toks[c].end, rep))
                        log.append(f"N5 derive({', '.join(names)}) -> derive({', '.join(keep)})")
                elif an in DROP_ATTRS:
                    edits.append((t.start, toks[c].end, ""))
                    log.append(f"N5 dropped attribute #[{an}(..)]")
    return _apply(src, edits)


def n2_let_chains(src, log):
    """if C1 && let P = E && C2 { B }   (no else, at least one `let` conjunct, only `&&` at top level)
         ->  if C1 { if let P = E { if C2 { B } } }"""
    while True:
        toks = lex(src)
        done = True
        for i, t in enumerate(toks):
            if not (t.text == "if" and t.kind == "ident"):
                continue
            d = t.depth
            # find the body `{`: first `{` at depth d that is not part of a `let` pattern
            k = i + 1
            conj_starts = [k]
            ands = []
            has_let = False
            in_pattern = toks[k].text == "let"
            has_let = in_pattern
            body = -1
            while k < len(toks):
                tk = toks[k]
                if tk.depth == d:
                    if in_pattern and tk.text == "=" and tk.kind == "punct":
                        in_pattern = False
                    elif tk.text == "{" and not in_pattern:
                        body = k
                        break
                    elif tk.text == "&&" and not in_pattern:
                        ands.append(k)
                        conj_starts.append(k + 1)
                        if toks[k + 1].text == "let":
                            in_pattern = True
                            has_let = True
                    elif tk.text == "||" and not in_pattern:
                        ands = None
                        break
                    elif tk.text in (";",) :
                        break
                if tk.kind == "open":
                    k = tk.mate
                k += 1
            if ands is None or body < 0 or not has_let or not ands:
                continue
            close = toks[body].mate
            if close + 1 < len(toks) and toks[close + 1].text == "else":
                raise Unsupported("let chain with else")
            edits = [(toks[a].start, toks[a].end, "{ if") for a in ands]
            edits.append((toks[close].end, toks[close].end, " }" * len(ands)))
            src = _apply(src, edits)
            log.append(f"N2 if-chain of {len(ands) + 1} conjuncts (with let) -> nested ifs")
            done = False
            break
        if done:
            return src


def n7_for_enumerate(src, log):
    """for (I, X) in S.iter().enumerate() { B }  ->  for I in 0..S.len() { let X = &S[I]; B }"""
    while True:
        toks = lex(src)
        hit = None
        for i, t in enumerate(toks):
            if not (t.text == "for" and t.kind == "ident" and i + 1 < len(toks) and toks[i + 1].text == "("):
                continue
            pc = toks[i + 1].mate
            pat = _split_args(src, toks, i + 1)
            if len(pat) != 2 or toks[pc + 1].text != "in":
                continue
            # S.iter().enumerate() {
            k = pc + 2
            d = t.depth
            while k < len(toks) and not (toks[k].text == "{" and toks[k].depth == d):
                if toks[k].kind == "open":
                    k = toks[k].mate
                k += 1
            body = k
            tail = [toks[x].text for x in range(body - 8, body)]
            if tail != [".", "iter", "(", ")", ".", "enumerate", "(", ")"]:
                continue
            recv = src[toks[pc + 2].start:toks[body - 9].end]
            hit = (i, body, pat, recv)
            break
        if hit is None:
            return src
        i, body, pat, recv = hit
        rep = f"for {pat[0]} in 0..{recv}.len() {{ let {pat[1]} = &{recv}[{pat[0]}];"
        src = src[:toks[i].start] + rep + src[toks[body].end:]
        log.append(f"N7 for ({pat[0]}, {pat[1]}) in {recv}.iter().enumerate() -> index loop")


def n20_for_enumerate_zip(src, log):
    """for ((I, X), Y) in A.iter().enumerate().zip(B.iter()) { BODY }
         ->  let n = vx_min_usize(A.len(), B.len()); let mut k = 0; while k < n { let I = k; k = k + 1; let X = &A[I]; let Y = &B[I]; BODY }
    (std: zip stops at the shorter iterator; enumerate counts from 0; the counter moves at the head so that `continue` works)"""
    while True:
        toks = lex(src)
        hit = None
        for i, t in enumerate(toks):
            if not (t.text == "for" and t.kind == "ident" and i + 2 < len(toks) and toks[i + 1].text == "(" and toks[i + 2].text == "("):
                continue
            pc = toks[i + 1].mate
            outer = _split_args(src, toks, i + 1)
            inner = _split_args(src, toks, i + 2)
            if len(outer) != 2 or len(inner) != 2 or toks[pc + 1].text != "in":
                continue
            k = pc + 2
            d = t.depth
            while k < len(toks) and not (toks[k].text == "{" and toks[k].depth == d):
                if toks[k].kind == "open":
                    k = toks[k].mate
                k += 1
            body = k
            # .. A .iter().enumerate().zip( B .iter() ) {
            if toks[body - 1].text != ")" or [toks[x].text for x in range(body - 5, body - 1)] != [".", "iter", "(", ")"]:
                continue
            zo = toks[body - 1].mate
            if [toks[x].text for x in range(zo - 9, zo + 1)] != [".", "iter", "(", ")", ".", "enumerate", "(", ")", ".", "zip"][0:9] + ["("] and \
               [toks[x].text for x in range(zo - 10, zo + 1)] != [".", "iter", "(", ")", ".", "enumerate", "(", ")", ".", "zip", "("]:
                continue
            a = src[toks[pc + 2].start:toks[zo - 11].end]
            b = src[toks[zo + 1].start:toks[body - 6].end]
            hit = (i, body, inner[0].strip(), inner[1].strip(), outer[1].strip(), a, b)
            break
        if hit is None:
            # second spelling of the same iteration: for (I, (X, Y)) in A.iter().zip(B.iter()).enumerate() { BODY }
            for i, t in enumerate(toks):
                if not (t.text == "for" and t.kind == "ident" and i + 1 < len(toks) and toks[i + 1].text == "("):
                    continue
                pc = toks[i + 1].mate
                outer = _split_args(src, toks, i + 1)
                if len(outer) != 2 or toks[pc + 1].text != "in" or not outer[1].strip().startswith("("):
                    continue
                # the inner pair (X, Y)
                ip = next((x for x in range(i + 2, pc) if toks[x].text == "(" and toks[x].depth == toks[i + 1].depth + 1), None)
                if ip is None:
                    continue
                inner = _split_args(src, toks, ip)
                if len(inner) != 2:
                    continue
                k = pc + 2
                d = t.depth
                while k < len(toks) and not (toks[k].text == "{" and toks[k].depth == d):
                    if toks[k].kind == "open":
                        k = toks[k].mate
                    k += 1
                body = k
                # .. A .iter().zip( B .iter() ).enumerate() {
                if [toks[x].text for x in range(body - 4, body)] != [".", "enumerate", "(", ")"] or toks[body - 5].text != ")":
                    continue
                zo = toks[body - 5].mate
                if [toks[x].text for x in range(zo - 5, zo + 1)] != [".", "iter", "(", ")", ".", "zip"][0:5] + ["("] and \
                   [toks[x].text for x in range(zo - 6, zo + 1)] != [".", "iter", "(", ")", ".", "zip", "("]:
                    continue
                if [toks[x].text for x in range(body - 9, body - 5)] != [".", "iter", "(", ")"]:
                    continue
                a = src[toks[pc + 2].start:toks[zo - 7].end]
                b = src[toks[zo + 1].start:toks[body - 10].end]
                hit = (i, body, outer[0].strip(), inner[0].strip(), inner[1].strip(), a, b)
                break
        if hit is None:
            return src
        i, body, I, X, Y, a, b = hit
        # a `while` with the counter advanced at the head of the body: `continue` in BODY keeps its meaning (next element)
        rep = (f"let __vx_n_{I} = vx_min_usize({a}.len(), {b}.len()); let mut __vx_{I}: usize = 0; "
               f"while __vx_{I} < __vx_n_{I} {{ let {I} = __vx_{I}; __vx_{I} = __vx_{I} + 1; let {X} = &{a}[{I}]; let {Y} = &{b}[{I}];")
        src = src[:toks[i].start] + rep + src[toks[body].end:]
        log.append(f"N20 for (({I}, {X}), {Y}) in {a}.iter().enumerate().zip({b}.iter()) -> index loop over the shorter length")


def n21_each_worker(src, log):
    """visiting every element of a vector of trait objects by unique reference:
         V.iter_mut().for_each(|P: T| { .. P.m(ARGS) .. });      and      for P in &mut V { .. P.m(ARGS) .. }
       ->  { let mut __vx_k: usize = 0; while __vx_k < V.len() { .. vx_elem_m(&mut V, __vx_k, ARGS) .. ; __vx_k = __vx_k + 1; } }
    (std: both forms visit the elements in index order, once each; a method call through the element reference becomes a
    helper over (vector, index), whose contract is written in the unit: Verus has no `&mut v[i]`)"""
    def sub_calls(body, p, vec):
        bt = lex(body)
        eds = []
        for i, t in enumerate(bt):
            if t.kind == "ident" and t.text == p and (i == 0 or bt[i - 1].text != "."):
                if not (i + 3 < len(bt) and bt[i + 1].text == "." and bt[i + 2].kind == "ident" and bt[i + 3].text == "("):
                    raise Unsupported(f"n21: the element `{p}` is used other than as a method receiver")
                o = i + 3
                args = body[bt[o].end:bt[bt[o].mate].start].strip()
                eds.append((t.start, bt[bt[o].mate].end, f"vx_elem_{bt[i + 2].text}(&mut {vec}, __vx_k" + (", " + args if args else "") + ")"))
        return _apply(body, eds)
    while True:
        toks = lex(src)
        hit = None
        for i, t in enumerate(toks):
            # for P in &mut V { BODY }
            if t.text == "for" and t.kind == "ident" and i + 4 < len(toks) and toks[i + 1].kind == "ident" and toks[i + 2].text == "in" \
                    and toks[i + 3].text == "&" and toks[i + 4].text == "mut":
                k = i + 5
                while k < len(toks) and not (toks[k].text == "{" and toks[k].depth == t.depth):
                    if toks[k].kind == "open":
                        k = toks[k].mate
                    k += 1
                vec = src[toks[i + 5].start:toks[k - 1].end]
                body = src[toks[k].end:toks[toks[k].mate].start]
                hit = (toks[i].start, toks[toks[k].mate].end, toks[i + 1].text, vec, body, "")
                break
            # V.iter_mut().for_each(|P: T| { BODY })
            if t.text == "for_each" and i >= 5 and [x.text for x in toks[i - 5:i]] == [".", "iter_mut", "(", ")", "."] and toks[i + 1].text == "(":
                cs = _chain_start(toks, i - 5)
                vec = src[toks[cs].start:toks[i - 6].end]
                o = i + 1
                if toks[o + 1].text != "|":
                    continue
                b1 = next(x for x in range(o + 2, toks[o].mate) if toks[x].text == "|" and toks[x].depth == toks[o + 1].depth)
                p = toks[o + 2].text
                bo = b1 + 1
                if toks[bo].text != "{":
                    continue
                body = src[toks[bo].end:toks[toks[bo].mate].start]
                end = toks[o].mate
                semi = ";" if end + 1 < len(toks) and toks[end + 1].text == ";" else ""
                hit = (toks[cs].start, toks[end + 1].end if semi else toks[end].end, p, vec, body, semi)
                break
        if hit is None:
            return src
        a, b, p, vec, body, semi = hit
        nb = sub_calls(body, p, vec)
        rep = f"{{ let mut __vx_k: usize = 0; while __vx_k < {vec}.len() {{ {nb} __vx_k = __vx_k + 1; }} }}"
        src = src[:a] + rep + src[b:]
        log.append(f"N21 every element of {vec} visited by index; calls through the element -> vx_elem_*(&mut {vec}, k, ..)")


def n24_key_searches(src, log):
    """two searches by key over a slice, recognised after N1 by the exact shape of their predicate:
         FS.iter().position(|a| { let RecordTypeField { key, .. } = a; key == K })   ->  vx_field_position(&FS, K)
         PS.iter().any(|a| { let (k, _) = a; *k == E })                             ->  vx_names(&PS, E)
    (std: index of the first element whose `key` equals K / whether some pair's first component equals E; the helpers
    carry exactly that as their contract)"""
    while True:
        toks = lex(src)
        hit = None
        for i, t in enumerate(toks):
            if t.text in ("position", "any") and i >= 5 and [x.text for x in toks[i - 5:i]] == [".", "iter", "(", ")", "."] and toks[i + 1].text == "(":
                o = i + 1
                c = toks[o].mate
                inner = [x.text for x in toks[o + 1:c]]
                cs = _chain_start(toks, i - 5)
                recv = src[toks[cs].start:toks[i - 6].end]
                if t.text == "position" and len(inner) >= 17 and inner[0] == "|" and inner[2] == "|" and inner[3] == "{" \
                        and inner[4:13] == ["let", "RecordTypeField", "{", "key", ",", "..", "}", "=", inner[1]] and inner[13] == ";" \
                        and inner[14:16] == ["key", "=="] and inner[-1] == "}":
                    k0 = o + 1 + 16
                    arg = src[toks[k0].start:toks[c - 2].end]
                    hit = (toks[cs].start, toks[c].end, f"vx_field_position(&{recv}, {arg})", "position by key")
                    break
                if t.text == "any" and len(inner) >= 17 and inner[0] == "|" and inner[2] == "|" and inner[3] == "{" \
                        and inner[4:12] == ["let", "(", "k", ",", "_", ")", "=", inner[1]] and inner[12] == ";" \
                        and inner[13:16] == ["*", "k", "=="] and inner[-1] == "}":
                    k0 = o + 1 + 16
                    arg = src[toks[k0].start:toks[c - 2].end]
                    hit = (toks[cs].start, toks[c].end, f"vx_names(&{recv}, {arg})", "any by first component")
                    break
        if hit is None:
            return src
        a, b, rep, what = hit
        src = src[:a] + rep + src[b:]
        log.append(f"N24 slice search ({what}) -> {rep}")


def n26_for_pair_iter(src, log):
    """for (A, B) in V.iter() { BODY }  ->  for __vx_j in 0..V.len() { let A = &V[__vx_j].0; let B = &V[__vx_j].1; BODY }
    (iteration over a slice of pairs, each pair destructured by reference)"""
    while True:
        toks = lex(src)
        hit = None
        for i, t in enumerate(toks):
            if not (t.text == "for" and t.kind == "ident" and i + 1 < len(toks) and toks[i + 1].text == "("):
                continue
            pc = toks[i + 1].mate
            pat = _split_args(src, toks, i + 1)
            if len(pat) != 2 or toks[pc + 1].text != "in" or any(not p.strip().isidentifier() for p in pat):
                continue
            k = pc + 2
            d = t.depth
            while k < len(toks) and not (toks[k].text == "{" and toks[k].depth == d):
                if toks[k].kind == "open":
                    k = toks[k].mate
                k += 1
            body = k
            if [toks[x].text for x in range(body - 4, body)] != [".", "iter", "(", ")"]:
                continue
            recv = src[toks[pc + 2].start:toks[body - 5].end]
            hit = (i, body, pat[0].strip(), pat[1].strip(), recv)
            break
        if hit is None:
            return src
        i, body, A, B, recv = hit
        rep = f"for __vx_j in 0..{recv}.len() {{ let {A} = &{recv}[__vx_j].0; let {B} = &{recv}[__vx_j].1;"
        src = src[:toks[i].start] + rep + src[toks[body].end:]
        log.append(f"N26 for ({A}, {B}) in {recv}.iter() -> index loop")


def n27_map_idioms(src, log):
    """two HashMap idioms outside Verus, rewritten by their std definitions:
         M.entry(K).or_insert_with(|| E);            (statement: the entry reference is not used)
             ->  if !M.contains_key(&K) { M.insert(K, E); }
         if let Some(X) = M.get_mut(&K) { BODY }     (BODY updates fields of X)
             ->  if M.contains_key(&K) { let mut X = M.remove(&K).unwrap(); BODY M.insert(K, X); }
    (a HashMap has no observable order: taking the entry out and putting it back is the same map)"""
    while True:
        toks = lex(src)
        hit = None
        for i, t in enumerate(toks):
            if t.text == "or_insert_with" and i >= 2 and toks[i - 1].text == "." and toks[i - 2].text == ")" and toks[i + 1].text == "(":
                eo = toks[i - 2].mate          # `(` of entry(
                if toks[eo - 1].text != "entry" or toks[eo - 2].text != ".":
                    continue
                cs = _chain_start(toks, eo - 2)
                m = src[toks[cs].start:toks[eo - 3].end]
                key = src[toks[eo].end:toks[i - 2].start].strip()
                o = i + 1
                c = toks[o].mate
                if toks[o + 1].text != "||" or toks[c + 1].text != ";" or not (cs == 0 or toks[cs - 1].text in ("{", "}", ";")):
                    continue
                e = src[toks[o + 1].end:toks[c].start].strip()
                hit = (toks[cs].start, toks[c + 1].end, f"if !{m}.contains_key(&{key}) {{ {m}.insert({key}, {e}); }}", f"{m}.entry({key}).or_insert_with(..)")
                break
            if t.text == "get_mut" and i >= 1 and toks[i - 1].text == "." and toks[i + 1].text == "(":
                cs = _chain_start(toks, i - 1)
                # if let Some(X) = <chain>.get_mut(&K) {
                if cs < 6 or [x.text for x in toks[cs - 7:cs]][:3] != ["if", "let", "Some"] or toks[cs - 1].text != "=":
                    continue
                x = toks[cs - 3].text
                if toks[cs - 4].text != "(" or toks[cs - 2].text != ")":
                    continue
                m = src[toks[cs].start:toks[i - 2].end]
                o = i + 1
                c = toks[o].mate
                arg = src[toks[o].end:toks[c].start].strip()
                if not arg.startswith("&") or toks[c + 1].text != "{":
                    continue
                key = arg[1:].strip()
                bo = c + 1
                bc = toks[bo].mate
                if bc + 1 < len(toks) and toks[bc + 1].text == "else":
                    continue
                body = src[toks[bo].end:toks[bc].start]
                hit = (toks[cs - 7].start, toks[bc].end,
                       f"if {m}.contains_key(&{key}) {{ let mut {x} = {m}.remove(&{key}).unwrap(); {body} {m}.insert({key}, {x}); }}",
                       f"if let Some({x}) = {m}.get_mut(&{key})")
                break
        if hit is None:
            return src
        a, b, rep, what = hit
        src = src[:a] + rep + src[b:]
        log.append(f"N27 {what} -> contains_key / remove / insert")


def n30_iter_for_each(src, log):
    """E.iter().for_each(|X| BODY)   ->   for X in E.iter() { BODY; }          (E a plain identifier)
       E.as_ref().iter().for_each(|X| BODY)   ->   if let Some(X) = E.as_ref() { BODY; }
    (std: Iterator::for_each calls the closure once per item in order; the iterator of an Option yields its content once,
    if there is one.  Needed where the closure captures a `&mut`, which Verus closures cannot.)"""
    while True:
        toks = lex(src)
        hit = None
        for i, t in enumerate(toks):
            if not (t.text == "for_each" and i >= 5 and [x.text for x in toks[i - 5:i]] == [".", "iter", "(", ")", "."] and toks[i + 1].text == "("):
                continue
            o = i + 1
            if toks[o + 1].text != "|" or toks[o + 2].kind != "ident" or toks[o + 3].text != "|":
                continue
            x = toks[o + 2].text
            end = toks[o].mate
            body = src[toks[o + 4].start:toks[end - 1].end]
            semi = end + 1 < len(toks) and toks[end + 1].text == ";"
            stop = toks[end + 1].end if semi else toks[end].end
            k = i - 6
            if toks[k].kind == "ident" and not (k >= 1 and toks[k - 1].text in (".", "::")):
                e = toks[k].text
                hit = (toks[k].start, stop, f"for {x} in {e}.iter() {{ {body}; }}", f"{e}.iter().for_each")
                break
            if k >= 4 and [y.text for y in toks[k - 3:k + 1]] == [".", "as_ref", "(", ")"] and toks[k - 4].kind == "ident" \
                    and not (k >= 5 and toks[k - 5].text in (".", "::")):
                e = toks[k - 4].text
                hit = (toks[k - 4].start, stop, f"if let Some({x}) = {e}.as_ref() {{ {body}; }}", f"{e}.as_ref().iter().for_each")
                break
        if hit is None:
            return src
        a, b, rep, what = hit
        src = src[:a] + rep + src[b:]
        log.append(f"N30 {what}(|x| ..) -> {'for loop' if rep.startswith('for') else 'if let on the Option'}")


def n28_into_iter_for_each(src, log):
    """E.into_iter().for_each(|X| { BODY });   ->   { let __vx_v = E; let mut __vx_q: usize = 0;
                                                        while __vx_q < __vx_v.len() { let X = __vx_v[__vx_q]; BODY __vx_q = __vx_q + 1; } }
    (std: a Vec is consumed front to back; X is bound by copy, so the rule is used for vectors of Copy elements only)"""
    while True:
        toks = lex(src)
        hit = None
        for i, t in enumerate(toks):
            if t.text == "for_each" and i >= 5 and [x.text for x in toks[i - 5:i]] == [".", "into_iter", "(", ")", "."] and toks[i + 1].text == "(":
                cs = _chain_start(toks, i - 5)
                e = src[toks[cs].start:toks[i - 6].end]
                o = i + 1
                if toks[o + 1].text != "|" or toks[o + 2].kind != "ident" or toks[o + 3].text != "|" or toks[o + 4].text != "{":
                    continue
                x = toks[o + 2].text
                bo = o + 4
                body = src[toks[bo].end:toks[toks[bo].mate].start]
                end = toks[o].mate
                semi = end + 1 < len(toks) and toks[end + 1].text == ";"
                hit = (toks[cs].start, toks[end + 1].end if semi else toks[end].end, e, x, body)
                break
        if hit is None:
            return src
        a, b, e, x, body = hit
        rep = (f"{{ let __vx_v = {e}; let mut __vx_q: usize = 0; while __vx_q < __vx_v.len() {{ let {x} = __vx_v[__vx_q]; "
               f"{body} __vx_q = __vx_q + 1; }} }}")
        src = src[:a] + rep + src[b:]
        log.append(f"N28 {e[:40]}.into_iter().for_each(|{x}| ..) -> index loop")


def find_closures(src, toks):
    """Yield (bar0, bar1, body_start_tok, body_end_tok_inclusive, has_block) for every closure."""
    res = []
    for i, t in enumerate(toks):
        if t.kind != "punct" or t.text not in ("|", "||"):
            continue
        prev = toks[i - 1] if i > 0 else None
        if prev is not None and not (
            (prev.kind == "open") or prev.text in (",", "=", ";", "=>", "move", "return", "&&", "||!")
            or (prev.kind == "punct" and prev.text in ("=", ",", "=>", ";"))
        ):
            continue
        if prev is not None and prev.text == "move":
            pass
        if t.text == "||":
            b0 = b1 = i
        else:
            b0 = i
            k = i + 1
            while k < len(toks) and not (toks[k].text == "|" and toks[k].depth == t.depth):
                if toks[k].kind == "open":
                    k = toks[k].mate
                k += 1
            if k >= len(toks):
                continue
            b1 = k
        k = b1 + 1
        if k >= len(toks):
            continue
        if toks[k].text == "->":
            while toks[k].text != "{" or toks[k].depth != t.depth:
                if toks[k].kind == "open" and toks[k].text != "{":
                    k = toks[k].mate
                k += 1
        if toks[k].text == "{" and toks[k].depth == t.depth:
            res.append((b0, b1, k, toks[k].mate, True))
            continue
        s = k
        while k < len(toks):
            tk = toks[k]
            if tk.depth == t.depth and tk.text in (",", ";"):
                break
            if tk.kind == "close" and tk.depth < t.depth:
                break
            if tk.kind == "open":
                k = tk.mate
            k += 1
        res.append((b0, b1, s, k - 1, False))
    return res


def n1_closure_patterns(src, log):
    """|P1, P2| body  ->  |__vx_a1, __vx_a2| { let P1 = __vx_a1; let P2 = __vx_a2; body }
    applied only to closures that have a destructuring (non-identifier) parameter."""
    counter = 0
    while True:
        toks = lex(src)
        hit = None
        for (b0, b1, s, e, blk) in find_closures(src, toks):
            if b0 == b1:
                continue
            params = []
            d = toks[b0].depth
            start = toks[b0].end
            for k in range(b0 + 1, b1):
                if toks[k].text == "," and toks[k].depth == d:
                    params.append(src[start:toks[k].start].strip())
                    start = toks[k].end
            params.append(src[start:toks[b1].start].strip())
            params = [p for p in params if p]

            def simple(p):
                name = p.split(":")[0].strip()
                return name.replace("_", "a").isalnum() or name.startswith("mut ")
            if all(simple(p) for p in params):
                continue
            hit = (b0, b1, s, e, blk, params)
            break
        if hit is None:
            return src
        b0, b1, s, e, blk, params = hit
        names, lets = [], []
        for p in params:
            counter += 1
            pat, _, ty = p.partition(":") if ":" in p and not p.startswith("(") else (p, "", "")
            nm = f"__vx_a{counter}"
            names.append(nm + (": " + ty.strip() if ty.strip() else ""))
            pt = pat.strip()
            if pt.startswith("&") and pt[1:].strip().replace("_", "a").isalnum():
                # reference pattern on a Copy value: explicit dereference (Verus has no ref patterns)
                lets.append(f"let {pt[1:].strip()} = *{nm};")
            else:
                lets.append(f"let {pt} = {nm};")
        body = src[toks[s].start:toks[e].end]
        rep = "|" + ", ".join(names) + "| { " + " ".join(lets) + " " + body + " }"
        src = src[:toks[b0].start] + rep + src[toks[e].end:]
        log.append(f"N1 closure |{', '.join(params)}| -> named parameters + let")


def _chain_start(toks, i):
    """Token index where the postfix chain ending just before token i (a `.`) starts."""
    k = i - 1
    while k >= 0:
        t = toks[k]
        if t.kind == "close":
            k = t.mate - 1
            # generic call `foo::<T>(..)`: handled by ident / :: below
            continue
        if t.kind in ("ident", "num", "str"):
            # path segment or field/method name; continue if preceded by `.` or `::`
            if k - 1 >= 0 and toks[k - 1].text in (".", "::"):
                k -= 2
                continue
            # `&x`, `*x` prefix operators stay outside the chain
            return k
        if t.text == "?":
            k -= 1
            continue
        if t.text == ">":
            # turbofish `::<..>` — walk back to `<`
            d = 1
            k -= 1
            while k >= 0 and d > 0:
                if toks[k].text == ">":
                    d += 1
                elif toks[k].text == "<":
                    d -= 1
                elif toks[k].text == ">>":
                    d += 2
                k -= 1
            if toks[k].text == "::":
                k -= 1
            continue
        break
    return k + 1


def n29u_map_unzip_method(src, log, name):
    """let (A, B): (Vec<_>, Vec<_>) = RECV.iter().map(|P| { BODY }).unzip();   (BODY is cut separately as method NAME, rule X5)
         ->  let mut A = Vec::new(); let mut B = Vec::new();
             for __vx_m in 0..RECV.len() { let __vx_item = self.NAME(&RECV[__vx_m]); A.push(__vx_item.0); B.push(__vx_item.1); }
    (std: map + unzip call the closure once per element, in order, and distribute the pairs over two vectors in order)"""
    toks = lex(src)
    for i, t in enumerate(toks):
        if not (t.text == "let" and t.kind == "ident" and i + 1 < len(toks) and toks[i + 1].text == "("):
            continue
        pc = toks[i + 1].mate
        names = _split_args(src, toks, i + 1)
        if len(names) != 2 or not all(n.strip().isidentifier() for n in names):
            continue
        d = t.depth
        k = pc + 1
        while k < len(toks) and not (toks[k].text == ";" and toks[k].depth == d):
            if toks[k].kind == "open":
                k = toks[k].mate
            k += 1
        semi = k
        if semi >= len(toks) or "".join(x.text for x in toks[semi - 4:semi]) != ".unzip()":
            continue
        eq = next((x for x in range(pc + 1, semi) if toks[x].text == "=" and toks[x].depth == d), None)
        if eq is None or "".join(x.text for x in toks[pc + 1:eq]) != ":(Vec<_>,Vec<_>)":
            continue
        m = next((x for x in range(eq + 1, semi) if toks[x].depth == d and [y.text for y in toks[x:x + 6]] == [".", "iter", "(", ")", ".", "map"] and toks[x + 6].text == "("), None)
        if m is None:
            continue
        op = m + 6
        cl = toks[op].mate
        if cl != semi - 5:
            continue
        if not (toks[op + 1].text == "|" and toks[op + 2].kind == "ident" and toks[op + 3].text == "|" and toks[op + 4].text == "{" and toks[op + 4].mate == cl - 1):
            continue
        recv = "".join(src[toks[eq + 1].start:toks[m].start].split())
        a, b = names[0].strip(), names[1].strip()
        rep = (f"let mut {a} = Vec::new(); let mut {b} = Vec::new(); for __vx_m in 0..{recv}.len() /*vx:unzip:{a}*/ {{ "
               f"let __vx_item = self.{name}(&{recv}[__vx_m]); {a}.push(__vx_item.0); {b}.push(__vx_item.1); }}")
        log.append(f"N29 let ({a}, {b}) = {recv}.iter().map(<closure body cut as {name}>).unzip() -> loop calling self.{name} per element, in order")
        return src[:t.start] + rep + src[toks[semi].end:]
    raise Unsupported(f"N29: no `let (A, B): (Vec<_>, Vec<_>) = R.iter().map(|p| {{..}}).unzip();` for {name}")


def n29_map_collect_method(src, log, name):
    """let X = RECV.iter().map(|P| { BODY }).collect::<Vec<_>>();   (the closure is cut separately as method NAME, rule X3)
         ->  let mut X = Vec::new(); for __vx_m in 0..RECV.len() { let __vx_item = self.NAME(&RECV[__vx_m]); X.push(__vx_item); }
    (std: Iterator::map + collect into a Vec call the closure once per element, in order, and keep the results in order)"""
    toks = lex(src)
    for i, t in enumerate(toks):
        if not (t.text == "let" and t.kind == "ident" and i + 3 < len(toks) and toks[i + 1].kind == "ident" and toks[i + 2].text == "="):
            continue
        d = t.depth
        k = i + 3
        while k < len(toks) and not (toks[k].text == ";" and toks[k].depth == d):
            if toks[k].kind == "open":
                k = toks[k].mate
            k += 1
        semi = k
        if semi >= len(toks):
            continue
        # find `.iter().map(` at depth d
        m = None
        for x in range(i + 3, semi):
            if toks[x].depth == d and toks[x].text == "." and [toks[y].text for y in range(x, x + 6)] == [".", "iter", "(", ")", ".", "map"] and toks[x + 6].text == "(":
                m = x
                break
        if m is None:
            continue
        op = m + 6
        cl = toks[op].mate
        if "".join(tk.text for tk in toks[cl + 1:semi]) != ".collect::<Vec<_>>()":
            continue
        # the closure: |ident| { .. }
        if not (toks[op + 1].text == "|" and toks[op + 2].kind == "ident" and toks[op + 3].text == "|" and toks[op + 4].text == "{" and toks[op + 4].mate == cl - 1):
            continue
        recv = "".join(src[toks[i + 3].start:toks[m].start].split())
        x_name = toks[i + 1].text
        rep = (f"let mut {x_name} = Vec::new(); for __vx_m in 0..{recv}.len() /*vx:map:{x_name}*/ {{ let __vx_item = self.{name}(&{recv}[__vx_m]); "
               f"{x_name}.push(__vx_item); }}")
        log.append(f"N29 let {x_name} = {recv}.iter().map(<closure cut as {name}>).collect::<Vec<_>>() -> loop calling self.{name} per element, in order")
        return src[:t.start] + rep + src[toks[semi].end:]
    raise Unsupported(f"N29: no `let X = R.iter().map(|p| {{..}}).collect::<Vec<_>>();` for {name}")


def n7_sum(src, log, helper="vx_sum_u64", elem="u64"):
    """E.sum()  ->  { let __vx_sK: Vec<u64> = E.collect(); vx_sum_u64(__vx_sK) }
    (comment markers /*vx:sumK:pre*/ and /*vx:sumK:post*/ are anchors for proof blocks)"""
    k_sum = 0
    while True:
        toks = lex(src)
        hit = None
        for i, t in enumerate(toks):
            if t.text == "." and i + 3 < len(toks) and toks[i + 1].text == "sum" and toks[i + 2].text == "(" \
                    and toks[i + 2].mate == i + 3:
                hit = i
                break
        if hit is None:
            return src
        s = _chain_start(toks, hit)
        chain = src[toks[s].start:toks[hit].start]
        k_sum += 1
        rep = (f"{{ /*vx:sum{k_sum}:pre*/ let __vx_s{k_sum}: Vec<{elem}> = {chain}.collect(); "
               f"/*vx:sum{k_sum}:post*/ {helper}(__vx_s{k_sum}) }}")
        src = src[:toks[s].start] + rep + src[toks[hit + 3].end:]
        log.append(f"N7 E.sum() -> {helper}(E.collect()) [E = {' '.join(chain.split())[:70]}]")


def n7_enumerate_collect(src, log):
    """E.enumerate().collect()  ->  vx_enumerate(E.collect())"""
    while True:
        toks = lex(src)
        hit = None
        for i, t in enumerate(toks):
            if t.text == "." and i + 7 < len(toks) and toks[i + 1].text == "enumerate" and toks[i + 2].text == "(" \
                    and toks[i + 2].mate == i + 3 and toks[i + 4].text == "." and toks[i + 5].text == "collect" \
                    and toks[i + 6].text == "(" and toks[i + 6].mate == i + 7:
                hit = i
                break
        if hit is None:
            return src
        s = _chain_start(toks, hit)
        chain = src[toks[s].start:toks[hit].start]
        rep = f"vx_enumerate({chain}.collect())"
        src = src[:toks[s].start] + rep + src[toks[hit + 7].end:]
        log.append(f"N7 E.enumerate().collect() -> vx_enumerate(E.collect()) [E = {' '.join(chain.split())[:70]}]")


def n7_collect_result(src, log):
    """let X: Result<Vec<_>, _> = E.collect();  ->
         let __vx_cK: Vec<_> = E.collect(); /*vx:resK:mid*/ let X = vx_collect_results(__vx_cK); /*vx:resK:post*/
    (collect into Result = Ok(all items) if none is Err, else the first Err)"""
    kres = 0
    while True:
        toks = lex(src)
        hit = None
        for i, t in enumerate(toks):
            if not (t.text == "let" and t.kind == "ident"):
                continue
            d = t.depth
            # `: TYPE =`
            k = i + 1
            colon = eq = None
            while k < len(toks) and not (toks[k].text == ";" and toks[k].depth == d):
                if toks[k].depth == d and toks[k].text == ":" and colon is None and eq is None:
                    colon = k
                if toks[k].depth == d and toks[k].text == "=" and eq is None:
                    eq = k
                if toks[k].kind == "open":
                    k = toks[k].mate
                k += 1
            semi = k
            if colon is None or eq is None or semi >= len(toks):
                continue
            ann = "".join(src[toks[colon + 1].start:toks[eq - 1].end].split())
            if ann != "Result<Vec<_>,_>":
                continue
            if not (toks[semi - 1].text == ")" and toks[semi - 2].text == "(" and toks[semi - 3].text == "collect" and toks[semi - 4].text == "."):
                continue
            hit = (i, colon, eq, semi)
            break
        if hit is None:
            return src
        i, colon, eq, semi = hit
        expr = src[toks[eq + 1].start:toks[semi - 1].end]
        kres += 1
        name = src[toks[i + 1].start:toks[colon - 1].end]
        rep = (f"let __vx_c{kres}: Vec<_> = {expr}; /*vx:res{kres}:mid*/ let {name} = vx_collect_results(__vx_c{kres}); "
               f"/*vx:res{kres}:post*/")
        src = src[:toks[i].start] + rep + src[toks[semi].end:]
        log.append("N7 collect::<Result<Vec<_>,_>>() -> vx_collect_results(E.collect())")


def n10_entry_append(src, log):
    """X.entry(K).or_default().append(&mut P)  ->  vx_map_append(&mut X, K, &mut P)
       X.entry(K).or_default().extend(P)       ->  vx_map_extend(&mut X, K, P)
    (HashMap entry API: the two-step borrow through `Entry` is replaced by one trusted helper)"""
    while True:
        toks = lex(src)
        hit = None
        for i, t in enumerate(toks):
            if t.text == "." and i + 2 < len(toks) and toks[i + 1].text == "entry" and toks[i + 2].text == "(":
                c1 = toks[i + 2].mate
                if not (toks[c1 + 1].text == "." and toks[c1 + 2].text == "or_default" and toks[c1 + 3].text == "("
                        and toks[c1 + 3].mate == c1 + 4 and toks[c1 + 5].text == "."
                        and toks[c1 + 6].text in ("append", "extend") and toks[c1 + 7].text == "("):
                    continue
                hit = (i, c1, toks[c1 + 6].text, c1 + 7)
                break
        if hit is None:
            return src
        i, c1, meth, ao = hit
        s0 = _chain_start(toks, i)
        recv = src[toks[s0].start:toks[i].start]
        key = src[toks[i + 2].end:toks[c1].start].strip()
        arg = src[toks[ao].end:toks[toks[ao].mate].start].strip()
        helper = "vx_map_append" if meth == "append" else "vx_map_extend"
        rep = f"{helper}(&mut {' '.join(recv.split())}, {key}, {arg})"
        src = src[:toks[s0].start] + rep + src[toks[toks[ao].mate].end:]
        log.append(f"N10 {' '.join(recv.split())}.entry({key}).or_default().{meth}(..) -> {helper}(..)")


def n3_cast(src, log, target, helper, only=None):
    """E as <target>  ->  helper(E)   for a postfix-chain operand E"""
    while True:
        toks = lex(src)
        hit = None
        for i, t in enumerate(toks):
            if t.text == "as" and t.kind == "ident" and i + 1 < len(toks) and toks[i + 1].text == target:
                if only is not None:
                    s0 = _chain_start(toks, i)
                    if not src[toks[s0].start:toks[i - 1].end].startswith(only):
                        continue
                hit = i
                break
        if hit is None:
            return src
        # operand: postfix chain ending at hit-1
        s = _chain_start(toks, hit) if toks[hit - 1].kind != "close" or True else hit - 1
        operand = src[toks[s].start:toks[hit - 1].end]
        rep = f"{helper}({operand})"
        src = src[:toks[s].start] + rep + src[toks[hit + 1].end:]
        log.append(f"N3 `{' '.join(operand.split())[:50]} as {target}` -> {helper}(..)")


def n6_name_receiver(src, log, method):
    """E.m(ARGS)  ->  { let mut __vx_iK = E; /*vx:itK:pre*/ let __vx_rK = __vx_iK.m(ARGS); /*vx:itK:post*/ __vx_rK }
    for an iterator-consuming method m taking `&mut self` (all / any / find / position): the
    receiver temporary gets a name so that proof text can talk about the iterator before and after."""
    k_it = 0
    # numbering continues over methods: count existing markers
    import re as _re
    k_it = len(_re.findall(r"/\*vx:it\d+:pre\*/", src))
    while True:
        toks = lex(src)
        hit = None
        for i, t in enumerate(toks):
            if t.text == "." and i + 2 < len(toks) and toks[i + 1].text == method and toks[i + 2].text == "(" \
                    and not (i > 0 and toks[i - 1].text.startswith("__vx_i")):
                hit = i
                break
        if hit is None:
            return src
        s = _chain_start(toks, hit)
        chain = src[toks[s].start:toks[hit].start]
        close = toks[hit + 2].mate
        args = src[toks[hit + 2].start:toks[close].end]
        k_it += 1
        rep = (f"{{ let mut __vx_i{k_it} = {chain}; /*vx:it{k_it}:pre*/ let __vx_r{k_it} = __vx_i{k_it}.{method}{args}; "
               f"/*vx:it{k_it}:post*/ __vx_r{k_it} }}")
        src = src[:toks[s].start] + rep + src[toks[close].end:]
        log.append(f"N6 E.{method}(..) -> named receiver __vx_i{k_it} [E = {' '.join(chain.split())[:70]}]")


def n9_match_guard(src, log):
    """match E { P if G => { A } _ => B }   ->   match E { P => if G { A } else { B } _ => B }
    (exactly two arms, the second a bare wildcard: when G is false the only remaining arm is `_`)"""
    while True:
        toks = lex(src)
        hit = None
        for i, t in enumerate(toks):
            if not (t.text == "match" and t.kind == "ident"):
                continue
            # scrutinee up to `{` at same depth
            k = i + 1
            while k < len(toks) and not (toks[k].text == "{" and toks[k].depth == t.depth):
                if toks[k].kind == "open":
                    k = toks[k].mate
                k += 1
            if k >= len(toks):
                continue
            bo, bc = k, toks[k].mate
            d = toks[bo].depth + 1
            # first arm: pattern [if guard] => body
            a = bo + 1
            g = None
            while a < bc and not (toks[a].text == "=>" and toks[a].depth == d):
                if toks[a].text == "if" and toks[a].kind == "ident" and toks[a].depth == d:
                    g = a
                if toks[a].kind == "open":
                    a = toks[a].mate
                a += 1
            if g is None or a >= bc:
                continue
            arrow1 = a
            if toks[arrow1 + 1].text != "{":
                # expression body up to the `,` that ends the arm: wrap it in a block first
                e = arrow1 + 1
                while e < bc and not (toks[e].text == "," and toks[e].depth == d):
                    if toks[e].kind == "open":
                        e = toks[e].mate
                    e += 1
                src = src[:toks[arrow1 + 1].start] + "{ " + src[toks[arrow1 + 1].start:toks[e - 1].end] + " }" + src[toks[e - 1].end:]
                hit = "again"
                break
            b1o, b1c = arrow1 + 1, toks[arrow1 + 1].mate
            nxt = b1c + 1
            if toks[nxt].text == ",":
                nxt += 1
            if not (toks[nxt].text == "_" and toks[nxt + 1].text == "=>"):
                raise Unsupported("guarded match arm not followed by a bare wildcard arm")
            # second arm expression up to `,` or end of match
            e0 = nxt + 2
            e1 = e0
            while e1 < bc and not (toks[e1].text == "," and toks[e1].depth == d):
                if toks[e1].kind == "open":
                    e1 = toks[e1].mate
                e1 += 1
            if e1 < bc and any(toks[x].depth == d for x in range(e1 + 1, bc)):
                raise Unsupported("guarded match with more than two arms")
            hit = (g, arrow1, b1o, b1c, e0, e1 - 1)
            break
        if hit is None:
            return src
        if hit == "again":
            continue
        g, arrow1, b1o, b1c, e0, e1 = hit
        guard = src[toks[g + 1].start:toks[arrow1 - 1].end]
        other = src[toks[e0].start:toks[e1].end]
        edits = [(toks[g].start, toks[arrow1].start, ""),                      # drop `if G `
                 (toks[b1o].start, toks[b1o].start, f"if {guard} "),              # `=> if G {A}`
                 (toks[b1c].end, toks[b1c].end, f" else {{ {other} }}")]
        src = _apply(src, edits)
        log.append(f"N9 match guard `if {' '.join(guard.split())}` -> if/else inside the arm (fallback arm `_ => {' '.join(other.split())[:30]}`)")


def n9g_match_guard_general(src, log):
    """match E { P if G => A, REST }
         ->  { let __vx_mK = E; match __vx_mK { P => if G { A } else { match __vx_mK { REST } }, REST } }
    (first arm guarded, any number of following arms).  The scrutinee is evaluated once into a
    temporary; matching it twice needs a Copy scrutinee (otherwise rustc rejects the text: undecided)."""
    k = 0
    while True:
        toks = lex(src)
        hit = None
        for i, t in enumerate(toks):
            if not (t.text == "match" and t.kind == "ident"):
                continue
            j = i + 1
            while j < len(toks) and not (toks[j].text == "{" and toks[j].depth == t.depth):
                if toks[j].kind == "open":
                    j = toks[j].mate
                j += 1
            if j >= len(toks):
                continue
            bo, bc = j, toks[j].mate
            d = toks[bo].depth + 1
            a = bo + 1
            g = None
            while a < bc and not (toks[a].text == "=>" and toks[a].depth == d):
                if toks[a].text == "if" and toks[a].kind == "ident" and toks[a].depth == d:
                    g = a
                if toks[a].kind == "open":
                    a = toks[a].mate
                a += 1
            if g is None or a >= bc:
                continue
            arrow = a
            # end of first arm body
            if toks[arrow + 1].text == "{":
                e = toks[arrow + 1].mate
                body = src[toks[arrow + 1].start:toks[e].end]
                nxt = e + 1
                if toks[nxt].text == ",":
                    nxt += 1
            else:
                e = arrow + 1
                while e < bc and not (toks[e].text == "," and toks[e].depth == d):
                    if toks[e].kind == "open":
                        e = toks[e].mate
                    e += 1
                body = "{ " + src[toks[arrow + 1].start:toks[e - 1].end] + " }"
                nxt = e + 1
            if nxt >= bc:
                raise Unsupported("guarded match arm without following arms")
            hit = (i, bo, bc, g, arrow, nxt, body)
            break
        if hit is None:
            return src
        i, bo, bc, g, arrow, nxt, body = hit
        scrut = src[toks[i + 1].start:toks[bo - 1].end]
        pat = src[toks[bo + 1].start:toks[g - 1].end]
        guard = src[toks[g + 1].start:toks[arrow - 1].end]
        rest = src[toks[nxt].start:toks[bc - 1].end]
        tmp = f"__vx_m{k}"
        rep = (f"{{ let {tmp} = {scrut}; match {tmp} {{ {pat} => if {guard} {body} else {{ match {tmp} {{ {rest} }} }}, "
               f"{rest} }} }}")
        src = src[:toks[i].start] + rep + src[toks[bc].end:]
        log.append(f"N9 guarded first arm `{' '.join(pat.split())} if {' '.join(guard.split())}` -> if/else with the remaining arms re-matched on a temporary")
        k += 1


def n11_ref_patterns(src, log):
    """if let Some(&x) = E { B }  ->  if let Some(__vx_refK) = E { let x = *__vx_refK; B }
    (reference pattern on a Copy value = explicit dereference)"""
    k = 0
    while True:
        toks = lex(src)
        hit = None
        for i, t in enumerate(toks):
            if t.text == "if" and t.kind == "ident" and i + 7 < len(toks) and toks[i + 1].text == "let" \
                    and toks[i + 2].text == "Some" and toks[i + 3].text == "(" and toks[i + 4].text == "&" \
                    and toks[i + 5].kind == "ident" and toks[i + 6].text == ")" and toks[i + 7].text == "=":
                d = t.depth
                j = i + 8
                while j < len(toks) and not (toks[j].text == "{" and toks[j].depth == d):
                    if toks[j].kind == "open":
                        j = toks[j].mate
                    j += 1
                hit = (i, j)
                break
        if hit is None:
            # for &x in E { B }  ->  for __vx_refK in E { let x = *__vx_refK; B }
            for i, t in enumerate(toks):
                if t.text == "for" and t.kind == "ident" and i + 3 < len(toks) and toks[i + 1].text == "&" \
                        and toks[i + 2].kind == "ident" and toks[i + 3].text == "in":
                    d = t.depth
                    j = i + 4
                    while j < len(toks) and not (toks[j].text == "{" and toks[j].depth == d):
                        if toks[j].kind == "open":
                            j = toks[j].mate
                        j += 1
                    hit = (i, j)
                    break
            if hit is None:
                return src
            i, j = hit
            k += 1
            name = toks[i + 2].text
            edits = [(toks[i + 1].start, toks[i + 2].end, f"__vx_ref{k}"),
                     (toks[j].end, toks[j].end, f" let {name} = *__vx_ref{k};")]
            src = _apply(src, edits)
            log.append(f"N11 pattern for &{name} -> for __vx_ref{k} + explicit deref")
            continue
        i, j = hit
        k += 1
        name = toks[i + 5].text
        edits = [(toks[i + 4].start, toks[i + 5].end, f"__vx_ref{k}"),
                 (toks[j].end, toks[j].end, f" let {name} = *__vx_ref{k};")]
        src = _apply(src, edits)
        log.append(f"N11 pattern Some(&{name}) -> Some(__vx_ref{k}) + explicit deref")


def n12_is_none_or(src, log):
    """E.is_none_or(|x| B)  ->  (match E { None => true, Some(x) => { B } })   (definition of Option::is_none_or)"""
    while True:
        toks = lex(src)
        hit = None
        for i, t in enumerate(toks):
            if t.text == "." and i + 2 < len(toks) and toks[i + 1].text == "is_none_or" and toks[i + 2].text == "(":
                hit = i
                break
        if hit is None:
            return src
        o = hit + 2
        c = toks[o].mate
        # closure: | ident | body
        if not (toks[o + 1].text == "|" and toks[o + 2].kind == "ident" and toks[o + 3].text == "|"):
            raise Unsupported("is_none_or with a non-trivial closure parameter")
        x = toks[o + 2].text
        body = src[toks[o + 4].start:toks[c].start].strip()
        s0 = _chain_start(toks, hit)
        recv = src[toks[s0].start:toks[hit].start]
        rep = f"(match {recv} {{ None => true, Some({x}) => {{ {body} }} }})"
        src = src[:toks[s0].start] + rep + src[toks[c].end:]
        log.append(f"N12 E.is_none_or(|{x}| ..) -> match E {{ None => true, Some({x}) => .. }}")


def parse_emit_node_def(def_src):
    """`fn emit_node<F>(&mut self, kind: SyntaxKind, f: F) where F: FnOnce(&mut Self) { PRE f(self); POST }`
    -> (kind_param, f_param, PRE, POST) with PRE/POST the statement texts around the single call `f(self);`"""
    toks = lex(def_src)
    fi = next((i for i, t in enumerate(toks) if t.text == "fn" and t.depth == 0), None)
    if fi is None or toks[fi + 1].text != "emit_node":
        raise Unsupported("emit_node definition not found")
    po = next(i for i in range(fi, len(toks)) if toks[i].text == "(" and toks[i].depth == 0)
    params = _split_args(def_src, toks, po)
    if len(params) != 3 or "".join(params[0].split()) != "&mutself":
        raise Unsupported(f"emit_node has unexpected parameters {params}")
    kind_p = params[1].split(":")[0].strip()
    f_p = params[2].split(":")[0].strip()
    if "FnOnce(&mutSelf)" not in "".join(def_src.split()):
        raise Unsupported("emit_node closure type is not FnOnce(&mut Self)")
    bo = next(i for i in range(po, len(toks)) if toks[i].text == "{" and toks[i].depth == 0)
    bc = toks[bo].mate
    calls = [i for i in range(bo + 1, bc) if toks[i].kind == "ident" and toks[i].text == f_p]
    if len(calls) != 1:
        raise Unsupported("emit_node must call its closure exactly once")
    c = calls[0]
    if not (toks[c].depth == 1 and toks[c + 1].text == "(" and toks[c + 2].text == "self" and toks[c + 3].text == ")"
            and toks[c + 4].text == ";" and toks[c - 1].text in ("{", ";", "}")):
        raise Unsupported("emit_node must call its closure as the statement `f(self);`")
    pre = def_src[toks[bo].end:toks[c].start]
    post = def_src[toks[c + 4].end:toks[bc].start]
    for part in (pre, post):
        if any(t.text == "return" for t in lex(part)):
            raise Unsupported("`return` inside emit_node")
    return kind_p, f_p, pre, post


def _subst_idents(text, mapping):
    toks = lex(text)
    out = text
    for t in sorted(toks, key=lambda t: -t.start):
        if t.kind == "ident" and t.text in mapping:
            out = out[:t.start] + mapping[t.text] + out[t.end:]
    return out


def n13_inline_emit_node(src, log, emit_def=None):
    """RECV.emit_node(KIND, |P| { BODY })
         ->  { PRE[self := RECV, kind := KIND] { BODY[P := RECV] } POST[self := RECV, kind := KIND] }
    where `fn emit_node(&mut self, kind, f) { PRE f(self); POST }` is the definition cut from the repository on
    this run (today PRE = `self.builder.start_node(kind);`, POST = `self.builder.finish_node();`), i.e. the call is
    replaced by the callee's body with the `FnOnce(&mut Self)` argument beta-reduced: the closure parameter is an alias of the
    receiver for the duration of the call, so it is renamed to the receiver.  A `return;` inside the
    closure body (leaving the closure only) becomes `break` out of a once-through labelled loop:
         'vx_nK: loop { { BODY' } break 'vx_nK; }
    Closures over `&mut Self` are outside Verus; this rule is what brings the parse_* methods in reach."""
    if emit_def is None:
        raise Unsupported("N13 needs the definition of NodeBuilder::emit_node (directive `//@ n13_def`)")
    kind_p, f_p, pre_def, post_def = parse_emit_node_def(emit_def)
    k = 0
    while True:
        toks = lex(src)
        hit = None
        for i, t in enumerate(toks):
            if t.kind == "ident" and t.text == "emit_node" and i >= 2 and toks[i - 1].text == "." \
                    and toks[i - 2].kind == "ident" and i + 1 < len(toks) and toks[i + 1].text == "(":
                if i >= 3 and toks[i - 3].text in (".", "::"):
                    raise Unsupported("emit_node receiver is not a plain identifier")
                hit = i
                break
        if hit is None:
            return src
        i = hit
        recv = toks[i - 2].text
        o = i + 1
        c = toks[o].mate
        d = toks[o].depth + 1
        # first argument up to the top-level comma
        j = o + 1
        while j < c and not (toks[j].text == "," and toks[j].depth == d):
            if toks[j].kind == "open":
                j = toks[j].mate
            j += 1
        if j >= c:
            raise Unsupported("emit_node call without a closure argument")
        kind = src[toks[o + 1].start:toks[j - 1].end]
        # closure: | P | { BODY } [,]
        b0 = j + 1
        if not (toks[b0].text == "|" and toks[b0 + 1].kind == "ident" and toks[b0 + 2].text == "|"
                and toks[b0 + 3].text == "{"):
            raise Unsupported("emit_node argument is not `|ident| { .. }`")
        param = toks[b0 + 1].text
        bo = b0 + 3
        bc = toks[bo].mate
        rest = [x for x in range(bc + 1, c) if toks[x].text != ","]
        if rest:
            raise Unsupported("emit_node call has extra arguments")
        # nested closures (other than emit_node arguments, which are inlined later) own their `return`s
        inner = [(cl[2], cl[3]) for cl in find_closures(src, toks) if bo < cl[0] < bc]
        def in_inner(x):
            return any(a <= x <= b for a, b in inner)
        edits = []
        has_ret = False
        label = f"'vx_n{k}"
        for x in range(bo + 1, bc):
            tx = toks[x]
            if tx.kind == "ident" and tx.text == param and param != recv:
                if toks[x - 1].text == "|" and toks[x + 1].text == "|":
                    pass  # parameter of a nested closure with the same name: renamed too (it is inlined next)
                edits.append((tx.start, tx.end, recv))
            elif tx.kind == "ident" and tx.text == "return" and not in_inner(x):
                if toks[x + 1].text not in (";", ",", "}"):
                    raise Unsupported("`return <value>` inside an emit_node closure")
                edits.append((tx.start, tx.end, f"break {label}"))
                has_ret = True
        body = src[toks[bo].start:toks[bc].end]
        base = toks[bo].start
        for s0, e0, r0 in sorted(edits, key=lambda e: -e[0]):
            body = body[:s0 - base] + r0 + body[e0 - base:]
        if has_ret:
            inner_txt = f"/*VX-N13-LOOP*/ {label}: loop {{ {body} break {label}; }}"
        else:
            inner_txt = body
        m = {"self": recv, kind_p: f"({kind})"}
        rep = f"{{ {_subst_idents(pre_def, m)} {inner_txt} {_subst_idents(post_def, m)} }}"
        src = src[:toks[i - 2].start] + rep + src[toks[c].end:]
        log.append(f"N13 {recv}.emit_node({' '.join(kind.split())}, |{param}| ..) inlined"
                   + (" (closure `return` -> labelled break)" if has_ret else ""))
        k += 1


def nvis(src, log):
    """pub(crate) / pub(super) / pub(in ..)  ->  pub   (a single-file unit has one crate and one module;
    widening visibility cannot change behaviour)"""
    toks = lex(src)
    edits = []
    for i, t in enumerate(toks):
        if t.text == "pub" and t.kind == "ident" and i + 1 < len(toks) and toks[i + 1].text == "(":
            c = toks[i + 1].mate
            inner = src[toks[i + 1].end:toks[c].start].strip()
            if inner in ("crate", "super", "self") or inner.startswith("in "):
                edits.append((toks[i + 1].start, toks[c].end, ""))
    if edits:
        log.append(f"NV {len(edits)} restricted visibilities -> pub")
    return _apply(src, edits)


DEFAULT_RULES = ("n5", "nvis", "n4", "n2", "n1")


def nconcat2(src, log):
    """`[E1, E2].concat()` -> `vx_concat2(E1, E2)` (std: the concatenation of the two vectors, in that order)"""
    while True:
        toks = lex(src)
        hit = None
        for i, t in enumerate(toks):
            if t.text == "[" and t.kind == "open":
                c = t.mate
                if c + 4 < len(toks) and toks[c + 1].text == "." and toks[c + 2].text == "concat" \
                        and toks[c + 3].text == "(" and toks[c + 4].text == ")":
                    parts = _split_args(src, toks, i)
                    if len(parts) in (2, 3, 4) and not (i > 0 and (toks[i - 1].kind in ("ident", "close"))):
                        hit = (i, c, parts)
                        break
        if hit is None:
            return src
        i, c, parts = hit
        src = src[:toks[i].start] + f"vx_concat{len(parts)}({', '.join(parts)})" + src[toks[c + 4].end:]
        log.append(f"N7 [a, b, ..].concat() -> vx_concat{len(parts)}(a, b, ..)")


def nresize(src, log):
    """`PLACE.resize(N, V);` (PLACE a field path) -> `vx_resize_u64(&mut PLACE, N, V);` (std Vec::resize: truncate or pad with V).
    Generic in N and V: a changed size expression is carried into the verified text."""
    pat = re.compile(r"(?<![\w.])((?:\w+\.)+\w+|\w+)\.resize\(")
    out, pos = "", 0
    while True:
        m = pat.search(src, pos)
        if not m:
            return out + src[pos:]
        toks = lex(src)
        k = next((i for i, t in enumerate(toks) if t.start == m.end() - 1), None)
        if k is None or toks[k].mate < 0:
            out += src[pos:m.end()]; pos = m.end(); continue
        close = toks[k].mate
        parts = _split_args(src, toks, k)
        if len(parts) != 2:
            out += src[pos:m.end()]; pos = m.end(); continue
        out += src[pos:m.start()] + f"vx_resize_u64(&mut {m.group(1)}, {parts[0]}, {parts[1]})"
        pos = toks[close].end
        log.append("nresize PLACE.resize(n, v) -> vx_resize_u64(&mut PLACE, n, v)")


def nextend(src, log):
    """`PLACE.extend(X);` (statement; PLACE a field path, X a Vec consumed by value) -> `{ let mut __vx_eN = X; PLACE.append(&mut __vx_eN); }`
    (std: for a Vec argument `extend` appends its elements in order, as `append` does).  Generic in X."""
    pat = re.compile(r"(?<![\w.])((?:\w+\.)+\w+|\w+)\.extend\((\w+)\);")
    k = [0]
    def rep(m):
        k[0] += 1
        log.append("nextend PLACE.extend(x); -> let mut e = x; PLACE.append(&mut e);")
        return f"{{ let mut __vx_e{k[0]} = {m.group(2)}; {m.group(1)}.append(&mut __vx_e{k[0]}); }}"
    return pat.sub(rep, src)


def nposition(src, log):
    """`E.iter().position(|&X| PRED)` (E a field path, PRED without a `)` at top level) -> the forward index loop it denotes
         { let mut __vx_pK: Option<usize> = None; let mut __vx_jK: usize = 0; while __vx_jK < E.len() { let X = E[__vx_jK]; if PRED { __vx_pK = Some(__vx_jK); break; } __vx_jK += 1; } __vx_pK }
    (definition of `position`: the index of the first element that satisfies the predicate; `position` is a provided
    iterator method without a vstd specification)."""
    pat = re.compile(r"(?<![\w.])((?:\w+\.)+\w+|\w+)\.iter\(\)\.position\(\|&(\w+)\| ([^()|]+?)\)")
    k = [0]
    def rep(m):
        k[0] += 1
        n = k[0]
        log.append("nposition E.iter().position(|&x| p) -> forward index loop with early exit")
        e, x, pred = m.group(1), m.group(2), m.group(3).strip()
        return (f"{{ let mut __vx_p{n}: Option<usize> = None; let mut __vx_j{n}: usize = 0; while __vx_j{n} < {e}.len() "
                f"{{ let {x} = {e}[__vx_j{n}]; if {pred} {{ __vx_p{n} = Some(__vx_j{n}); break; }} __vx_j{n} += 1; }} __vx_p{n} }}")
    src = pat.sub(rep, src)
    # the same closure after rule N1 (`|&t| p` -> `|__vx_a1| { let t = *__vx_a1; p }`)
    pat2 = re.compile(r"(?<![\w.])((?:\w+\.)+\w+|\w+)\.iter\(\)\.position\(\|(__vx_a\d+)\| \{ let (\w+) = \*\2; ([^(){}|]+?) \}\)")
    def rep2(m):
        class M:  # adapt to rep's group layout
            def group(self, i): return {1: m.group(1), 2: m.group(3), 3: m.group(4)}[i]
        return rep(M())
    return pat2.sub(rep2, src)


def ncopyrange(src, log):
    """`PLACE[A..B].copy_from_slice(&SRC);` -> `vx_copy_range(&mut PLACE, A, B, &SRC);` (std: copy SRC over PLACE[A..B]; panics
    unless the range lies inside PLACE and SRC has B - A elements -- obligations of the call).  Generic in A, B, SRC."""
    pat = re.compile(r"(?<![\w.])((?:\w+\.)+\w+|\w+)\[([^\[\];]+?)\.\.([^\[\];]+?)\]\.copy_from_slice\(&(\w+)\)")
    def rep(m):
        log.append("ncopyrange PLACE[a..b].copy_from_slice(&src) -> vx_copy_range(&mut PLACE, a, b, &src)")
        return f"vx_copy_range(&mut {m.group(1)}, {m.group(2).strip()}, {m.group(3).strip()}, &{m.group(4)})"
    return pat.sub(rep, src)


def n19_range_rev_map_find(src, log):
    """`(A..=B).rev().map(|K| { BODY }).find(|M| PRED)`  ->  downward loop with early exit
         { let mut __vx_fK = None; let mut __vx_kK = B; while __vx_kK >= A { let K = __vx_kK; let __vx_mK = { BODY };
           let hit = { let M = &__vx_mK; PRED }; if hit { __vx_fK = Some(__vx_mK); break; } __vx_kK -= 1; } __vx_fK }
    (definition of rev + map + find over an inclusive range; requires A >= 1 so that the counter cannot underflow:
    the rule only fires for the literal lower bound 1)."""
    k = 0
    while True:
        toks = lex(src)
        hit = None
        cls = find_closures(src, toks)
        for ci, c in enumerate(cls):
            b0, b1, st, en, blk = c
            t = toks
            # `( 1 ..= B ) . rev ( ) . map ( |K| {..} ) . find ( |M| PRED )`
            if not (blk and b1 == b0 + 2 and t[b0 + 1].kind == "ident" and t[b0 - 1].text == "(" and t[b0 - 2].text == "map"
                    and t[b0 - 3].text == "." and t[b0 - 4].text == ")" and t[b0 - 5].text == "(" and t[b0 - 6].text == "rev"
                    and t[b0 - 7].text == "." and t[b0 - 8].text == ")"):
                continue
            ro = t[b0 - 8].mate
            if not (t[ro + 1].text == "1" and t[ro + 2].text == "..="):
                continue
            hi = src[t[ro + 3].start:t[b0 - 9].end]
            mc = t[b0 - 1].mate
            if mc != en + 1 or not (t[mc + 1].text == "." and t[mc + 2].text == "find" and t[mc + 3].text == "("):
                continue
            fo = mc + 3
            fc = t[fo].mate
            # the find closure
            f = [x for x in cls if fo < x[0] < fc]
            if len(f) != 1 or f[0][1] != f[0][0] + 2 or t[f[0][0] + 1].kind != "ident" or f[0][3] + 1 != fc:
                continue
            hit = (ro, fc, hi, t[b0 + 1].text, src[t[st].start:t[en].end], t[f[0][0] + 1].text, src[t[f[0][2]].start:t[f[0][3]].end])
            break
        if hit is None:
            return src
        i, e, hi, kvar, body, mvar, pred = hit
        fv, kv, mv = f"__vx_f{k}", f"__vx_k{k}", f"__vx_m{k}"
        rep = (f"{{ let mut {fv} = None; let mut {kv} = {hi}; while {kv} >= 1 {{ let {kvar} = {kv}; let {mv} = {body}; "
               f"let __vx_hit{k} = {{ let {mvar} = &{mv}; {pred} }}; if __vx_hit{k} {{ {fv} = Some({mv}); break; }} {kv} -= 1; }} {fv} }}")
        src = src[:toks[i].start] + rep + src[toks[e].end:]
        log.append(f"N19 (1..={hi}).rev().map(|{kvar}| ..).find(|{mvar}| ..) -> downward loop")
        k += 1


def n18_rev_any(src, log):
    """`E.iter().rev().any(|X| PRED)`  ->  a reverse index loop with early exit
         { let mut __vx_rK = false; let mut __vx_iK = E.len(); while __vx_iK > 0 { __vx_iK -= 1; let X = &E[__vx_iK]; if PRED { __vx_rK = true; break; } } __vx_rK }
    (definition of rev + any over a slice / Vec; `rev` has no vstd specification).  E may be a field path."""
    k = 0
    while True:
        toks = lex(src)
        hit = None
        for c in find_closures(src, toks):
            b0, b1, st, en, blk = c
            if b1 != b0 + 2 or toks[b0 + 1].kind != "ident":
                continue
            t = toks
            if not (b0 >= 10 and t[b0 - 1].text == "(" and t[b0 - 2].text == "any" and t[b0 - 3].text == "." and t[b0 - 4].text == ")"
                    and t[b0 - 5].text == "(" and t[b0 - 6].text == "rev" and t[b0 - 7].text == "." and t[b0 - 8].text == ")"
                    and t[b0 - 9].text == "(" and t[b0 - 10].text == "iter" and t[b0 - 11].text == "."):
                continue
            cl = t[b0 - 1].mate
            if cl != en + 1:
                continue
            # receiver: identifiers joined by `.` ending right before `.iter`
            r1 = b0 - 12
            r0 = r1
            while r0 - 2 >= 0 and t[r0 - 1].text == "." and t[r0 - 2].kind == "ident":
                r0 -= 2
            if t[r0].kind != "ident":
                continue
            hit = (r0, cl, src[t[r0].start:t[r1].end], t[b0 + 1].text, src[t[st].start:t[en].end])
            break
        if hit is None:
            return src
        i, cl, recv, param, pred = hit
        r, ix = f"__vx_r{k}", f"__vx_i{k}"
        rep = (f"{{ let mut {r} = false; let mut {ix} = {recv}.len(); while {ix} > 0 {{ {ix} -= 1; let {param} = &{recv}[{ix}]; "
               f"if {pred} {{ {r} = true; break; }} }} {r} }}")
        src = src[:toks[i].start] + rep + src[toks[cl].end:]
        log.append(f"N18 {recv}.iter().rev().any(|{param}| ..) -> reverse index loop")
        k += 1


def n17_map_collect(src, log):
    """`E.into_iter().map(|X| { BODY }).collect()`  ->  `{ let mut __vx_vK = Vec::new(); for X in E { __vx_vK.push({ BODY }); } __vx_vK }`
    (definition of map + collect into a Vec: the items are produced in order; needed where the closure captures a `&mut`).
    The receiver E must be a plain identifier."""
    k = 0
    while True:
        toks = lex(src)
        hit = None
        for c in find_closures(src, toks):
            b0, b1, st, en, blk = c
            if b1 != b0 + 2 or toks[b0 + 1].kind != "ident":
                continue
            # IDENT . into_iter ( ) . map ( |X| {..} ) . collect ( )      (the closure body may also be a plain expression)
            if b0 >= 8 and toks[b0 - 1].text == "(" and toks[b0 - 2].text == "map" and toks[b0 - 3].text == "." \
                    and toks[b0 - 4].text == ")" and toks[b0 - 5].text == "(" and toks[b0 - 6].text == "into_iter" \
                    and toks[b0 - 7].text == "." and toks[b0 - 8].kind == "ident" and not (b0 >= 9 and toks[b0 - 9].text in (".", "::")):
                cl = toks[b0 - 1].mate
                if cl != en + 1:
                    continue
                if not (toks[cl + 1].text == "." and toks[cl + 2].text == "collect" and toks[cl + 3].text == "(" and toks[cl + 4].text == ")"):
                    continue
                hit = (b0 - 8, cl + 4, toks[b0 - 8].text, toks[b0 + 1].text, src[toks[st].start:toks[en].end])
                break
        if hit is None:
            return src
        i, e, recv, param, body = hit
        v = f"__vx_v{k}"
        src = src[:toks[i].start] + f"{{ let mut {v} = Vec::new(); for {param} in {recv} {{ {v}.push({body}); }} {v} }}" + src[toks[e].end:]
        log.append(f"N17 {recv}.into_iter().map(|{param}| ..).collect() -> push loop")
        k += 1


def n16_option_map(src, log):
    """`OPT.map(|P| { BODY })`  ->  `match OPT { Some(P) => Some({ BODY }), None => None }`  and the same for a
    non-block closure body (definition of Option::map; needed where the closure captures a `&mut`, which Verus closures
    cannot).  Applied only to receivers that are a plain identifier."""
    while True:
        toks = lex(src)
        hit = None
        for c in find_closures(src, toks):
            b0, b1, st, en, blk = c
            # `IDENT . map (` directly in front of the closure, closure is the only argument
            if b0 >= 4 and toks[b0 - 1].text == "(" and toks[b0 - 2].text == "map" and toks[b0 - 3].text == "." \
                    and toks[b0 - 4].kind == "ident" and not (b0 >= 5 and toks[b0 - 5].text in (".", "::")):
                o = b0 - 1
                cl = toks[o].mate
                if cl != en + 1:
                    continue
                if b1 != b0 + 2 or toks[b0 + 1].kind != "ident":
                    continue
                hit = (b0 - 4, cl, toks[b0 - 4].text, toks[b0 + 1].text, src[toks[st].start:toks[en].end])
                break
        if hit is None:
            return src
        i, cl, recv, param, body = hit
        src = src[:toks[i].start] + f"match {recv} {{ Some({param}) => Some({body}), None => None }}" + src[toks[cl].end:]
        log.append(f"N16 {recv}.map(|{param}| ..) -> match on the Option")


def n22_option_map_or(src, log):
    """`OPT.map_or(D, |P| E)`  ->  `(match OPT { Some(P) => E, None => D })`   (definition of Option::map_or)
    OPT is a postfix chain; P a plain identifier, optionally typed (the annotation is dropped)."""
    while True:
        toks = lex(src)
        hit = None
        for i, t in enumerate(toks):
            if t.text == "map_or" and i >= 2 and toks[i - 1].text == "." and toks[i + 1].text == "(":
                o = i + 1
                args = _split_args(src, toks, o)
                if len(args) != 2 or not args[1].strip().startswith("|"):
                    continue
                cs = _chain_start(toks, i - 1)
                recv = src[toks[cs].start:toks[i - 2].end]
                cl = args[1].strip()
                bar = cl.index("|", 1)
                param = cl[1:bar].split(":")[0].strip()
                body = cl[bar + 1:].strip()
                hit = (toks[cs].start, toks[toks[o].mate].end, recv, param, body, args[0].strip())
                break
        if hit is None:
            return src
        a, b, recv, param, body, dflt = hit
        src = src[:a] + f"(match {recv} {{ Some({param}) => {body}, None => {dflt} }})" + src[b:]
        log.append(f"N22 {recv}.map_or({dflt}, |{param}| ..) -> match on the Option")


def nctxdata(src, log):
    """`let D = R.get_ctxdata(); .. D.f ..` -> `.. R.get_ctxdata().f ..` (the local is an alias of the `&mut ContextData`
    the accessor returns; inlining the alias lets the reduced Context replace the accessor by its field)"""
    while True:
        toks = lex(src)
        hit = None
        for i, t in enumerate(toks):
            if t.text == "let" and t.kind == "ident" and i + 8 < len(toks) and toks[i + 1].kind == "ident" and toks[i + 2].text == "=" \
                    and toks[i + 3].kind == "ident" and toks[i + 4].text == "." and toks[i + 5].text == "get_ctxdata" \
                    and toks[i + 6].text == "(" and toks[i + 7].text == ")" and toks[i + 8].text == ";":
                hit = i
                break
        if hit is None:
            return src
        i = hit
        name, recv = toks[i + 1].text, toks[i + 3].text
        d = toks[i].depth
        # end of the enclosing block
        e = i + 9
        while e < len(toks) and not (toks[e].kind == "close" and toks[e].depth == d - 1):
            e += 1
        edits = [(toks[i].start, toks[i + 8].end, "")]
        for k in range(i + 9, e):
            if toks[k].kind == "ident" and toks[k].text == name and toks[k + 1].text == "." and toks[k - 1].text != ".":
                edits.append((toks[k].start, toks[k].end, f"{recv}.get_ctxdata()"))
        src = _apply(src, edits)
        log.append(f"N15 `let {name} = {recv}.get_ctxdata();` alias inlined")


def nblockpushat(src, log):
    """`let B = R.get_current_fn().body.get_mut(IDX).unwrap(); B.0.push((Arc::new(Value::None), INST));`
         -> `R.vx_block_push_at(IDX, INST);`   (an instruction appended to the end of block IDX)"""
    while True:
        toks = lex(src)
        hit = None
        for i, t in enumerate(toks):
            if not (t.text == "let" and t.kind == "ident" and toks[i + 1].kind == "ident" and toks[i + 2].text == "="):
                continue
            if not (toks[i + 3].kind == "ident" and toks[i + 4].text == "." and toks[i + 5].text == "get_current_fn"
                    and toks[i + 6].text == "(" and toks[i + 7].text == ")" and toks[i + 8].text == "." and toks[i + 9].text == "body"
                    and toks[i + 10].text == "." and toks[i + 11].text == "get_mut" and toks[i + 12].text == "("):
                continue
            c = toks[i + 12].mate
            if not (toks[c + 1].text == "." and toks[c + 2].text == "unwrap" and toks[c + 3].text == "(" and toks[c + 4].text == ")"
                    and toks[c + 5].text == ";"):
                continue
            b = toks[i + 1].text
            k = c + 6
            if not (toks[k].text == b and toks[k + 1].text == "." and toks[k + 2].text == "0" and toks[k + 3].text == "."
                    and toks[k + 4].text == "push" and toks[k + 5].text == "(" and toks[k + 6].text == "("):
                continue
            pc = toks[k + 5].mate
            inner = _split_args(src, toks, k + 6)
            first = "".join(inner[0].split()) if inner else ""
            if len(inner) != 2 or first not in ("Arc::new(Value::None)", "Arc::new(mir::Value::None)") or toks[pc + 1].text != ";":
                continue
            idx = src[toks[i + 12].end:toks[c].start].strip()
            hit = (i, pc + 1, toks[i + 3].text, idx, inner[1])
            break
        if hit is None:
            return src
        i, e, recv, idx, inst = hit
        src = src[:toks[i].start] + f"{recv}.vx_block_push_at({idx}, {inst});" + src[toks[e].end:]
        log.append("N14 get_current_fn().body.get_mut(I).unwrap() + .0.push((Arc::new(Value::None), INST)) -> vx_block_push_at(I, INST)")


def nblockpush(src, log):
    """`R.get_current_basicblock().0.push((Arc::new([mir::]Value::None), INST));` -> `R.vx_block_push(INST);`
    (an instruction without a result register appended to the current basic block; INST is copied verbatim)"""
    while True:
        toks = lex(src)
        hit = None
        for i, t in enumerate(toks):
            if t.kind == "ident" and t.text == "get_current_basicblock" and i >= 2 and toks[i - 1].text == "." \
                    and toks[i + 1].text == "(" and toks[i + 2].text == ")" and toks[i + 3].text == "." \
                    and toks[i + 4].text == "0" and toks[i + 5].text == "." and toks[i + 6].text == "push" and toks[i + 7].text == "(":
                o = i + 7
                c = toks[o].mate
                if toks[o + 1].text != "(":
                    continue
                inner = _split_args(src, toks, o + 1)
                first = "".join(inner[0].split()) if inner else ""
                if len(inner) != 2 or first not in ("Arc::new(Value::None)", "Arc::new(mir::Value::None)"):
                    continue
                hit = (i, c, inner[1])
                break
        if hit is None:
            return src
        i, c, inst = hit
        src = src[:toks[i].start] + f"vx_block_push({inst})" + src[toks[c].end:]
        log.append("N14 get_current_basicblock().0.push((Arc::new(Value::None), INST)) -> vx_block_push(INST)")


def nowrap_assign(src, log, lhs):
    """`LHS += E;` -> `LHS = vx_add_nowrap(LHS, E);` for the one named place (ASSUMED: this counter never wraps)"""
    lt = [t.text for t in lex(lhs)]
    toks = lex(src)
    edits = []
    for i in range(len(toks) - len(lt) - 1):
        if [t.text for t in toks[i:i + len(lt)]] == lt and toks[i + len(lt)].text == "+=" \
                and (i == 0 or toks[i - 1].text in ("{", "}", ";")):
            d = toks[i].depth
            e = i + len(lt) + 1
            while e < len(toks) and not (toks[e].text == ";" and toks[e].depth == d):
                if toks[e].kind == "open":
                    e = toks[e].mate
                e += 1
            expr = src[toks[i + len(lt) + 1].start:toks[e - 1].end]
            edits.append((toks[i].start, toks[e].end, f"{lhs} = vx_add_nowrap({lhs}, {expr});"))
            log.append(f"nowrap: `{lhs} += {expr};` -> vx_add_nowrap (ASSUMED not to wrap)")
    return _apply(src, edits)


def nf64add(src, log, name):
    """`NAME[..][..] + OPERAND` -> `vx_f64_add(NAME[..][..], OPERAND)` where OPERAND is an identifier or a postfix chain
    (rule N3 for the float cells of one named table: Verus has no specification for `f64 + f64`)"""
    toks = lex(src)
    edits = []
    i = 0
    while i < len(toks):
        if toks[i].text == name and i + 1 < len(toks) and toks[i + 1].text == "[" and (i == 0 or toks[i - 1].text != "."):
            j = i + 1
            while j < len(toks) and toks[j].text == "[":
                j = toks[j].mate + 1
            if j < len(toks) and toks[j].text == "+" and j + 1 < len(toks) and toks[j + 1].kind == "ident":
                # operand: identifier followed by index / call / field suffixes
                e = j + 2
                while e < len(toks) and (toks[e].text in ("[", "(") or (toks[e].text == "." and toks[e + 1].kind == "ident")):
                    e = toks[e].mate + 1 if toks[e].text in ("[", "(") else e + 2
                lhs = src[toks[i].start:toks[j - 1].end]
                rhs = src[toks[j + 1].start:toks[e - 1].end]
                edits.append((toks[i].start, toks[e - 1].end, f"vx_f64_add({lhs}, {rhs})"))
                log.append(f"nf64add: `{lhs} + {rhs}` -> vx_f64_add")
                i = e
                continue
        i += 1
    return _apply(src, edits)


def nordinal(src, log, fname):
    """enum cut: append `pub open spec fn FNAME(x: E) -> u32 { match x { E::V0 => 0, E::V1 => 1, .. } }` -- the position of
    each (field-less) variant in the declaration, which is what serde's derived identifier visitor maps an index to"""
    toks = lex(src)
    k = next((i for i, t in enumerate(toks) if t.text == "enum"), -1)
    if k < 0 or toks[k + 2].text != "{":
        raise Unsupported("nordinal: not a plain enum")
    name = toks[k + 1].text
    o = k + 2
    names = []
    for part in _split_args(src, toks, o):
        pt = [t for t in lex(part)]
        # skip attributes of the variant
        j = 0
        while j < len(pt) and pt[j].text == "#":
            j = pt[j + 1].mate + 1
        if j >= len(pt):
            continue
        if len(pt) - j != 1 or pt[j].kind != "ident":
            raise Unsupported(f"nordinal: variant with fields or discriminant: {part.strip()[:40]}")
        names.append(pt[j].text)
    arms = ", ".join(f"{name}::{v} => {i}u32" for i, v in enumerate(names))
    log.append(f"nordinal: generated {fname}({name}) from the declaration order of {len(names)} variants")
    return src + f"\npub open spec fn {fname}(x: {name}) -> u32 {{ match x {{ {arms} }} }}\n"


def nhoist(src, log):
    """fn cut: struct items declared inside the body (`struct N { a: A, b: B }` / `struct N(A, B);`, with their attributes)
    are moved behind the function (Verus has no items in bodies), and for each one
    `impl VxFlat for N { open spec fn flat(self) -> Seq<Payload> { seq![enc(self.a), enc(self.b)] } }` is generated: serde's
    derived Deserialize of a struct reads its fields in declaration order"""
    toks = lex(src)
    fk = next((i for i, t in enumerate(toks) if t.text == "fn"), -1)
    if fk < 0:
        return src
    bo = next(i for i in range(fk, len(toks)) if toks[i].text == "{" and toks[i].depth == toks[fk].depth)
    edits, tail = [], []
    i = bo + 1
    end = toks[bo].mate
    while i < end:
        t = toks[i]
        if t.text == "struct" and toks[i - 1].text in ("{", "}", ";", "]", "=>"):
            # attributes in front
            a0 = i
            while toks[a0 - 1].text == "]" and toks[toks[a0 - 1].mate - 1].text == "#":
                a0 = toks[a0 - 1].mate - 1
            name = toks[i + 1].text
            g = i + 2
            if toks[g].text == "{":
                fields = []
                for part in _split_args(src, toks, g):
                    pt = lex(part)
                    if pt:
                        fields.append(pt[0].text if pt[0].text != "pub" else pt[1].text)
                e = toks[g].mate
                body = src[toks[i].start:toks[e].end]
                # every field public (single-module unit)
                decl = "pub " + _pub_fields(body)
            elif toks[g].text == "(":
                n = len([p for p in _split_args(src, toks, g) if p.strip()])
                fields = [str(k) for k in range(n)]
                e = toks[g].mate + 1   # the `;`
                inner = ", ".join("pub " + p.strip() for p in _split_args(src, toks, g) if p.strip())
                decl = f"pub struct {name}({inner});"
            else:
                i += 1
                continue
            edits.append((toks[a0].start, toks[e].end, ""))
            flat = ", ".join(f"enc(self.{f})" for f in fields)
            tail.append(decl + f"\nimpl VxFlat for {name} {{ open spec fn flat(self) -> Seq<Payload> {{ seq![{flat}] }} }}")
            log.append(f"nhoist: local struct {name} moved out of the function body; VxFlat generated from its {len(fields)} fields in declaration order")
            i = e + 1
            continue
        i += 1
    if not edits:
        return src
    return _apply(src, edits) + "\n" + "\n".join(tail) + "\n"


def _pub_fields(struct_text):
    """`struct N { a: A, b: B }` -> `struct N { pub a: A, pub b: B }`"""
    toks = lex(struct_text)
    o = next(i for i, t in enumerate(toks) if t.text == "{")
    parts = [p.strip() for p in _split_args(struct_text, toks, o) if p.strip()]
    parts = [p if p.startswith("pub ") else "pub " + p for p in parts]
    return struct_text[:toks[o].start] + "{ " + ", ".join(parts) + " }"


def nmirlits(src, log):
    """mirgen's literal value / type constructors: `Arc::new(Value::None)` -> `vx_value_none()`, `unit!()` -> `vx_unit()`,
    `numeric!()` -> `vx_numeric()` (opaque helpers of the unit: the generated VALUE is never part of a C05 contract)"""
    n = 0
    for a, b in (("Arc::new(Value::None)", "vx_value_none()"), ("Arc::new(mir::Value::None)", "vx_value_none()"), ("unit!()", "vx_unit()"), ("numeric!()", "vx_numeric()")):
        n += src.count(a)
        src = src.replace(a, b)
    if n:
        log.append(f"nmirlits: {n} literal value / type constructors -> opaque helpers")
    return src


def normalise(src, rules, log, ctx=None):
    ctx = ctx or {}
    for r in rules:
        if r == "n5":
            src = n5_derives(src, log)
        elif r == "n12":
            src = n12_is_none_or(src, log)
        elif r == "n11":
            src = n11_ref_patterns(src, log)
        elif r == "n9":
            src = n9_match_guard(src, log)
        elif r == "n9g":
            src = n9g_match_guard_general(src, log)
        elif r == "n13":
            src = n13_inline_emit_node(src, log, ctx.get("n13_def"))
        elif r == "n19":
            src = n19_range_rev_map_find(src, log)
        elif r == "n18":
            src = n18_rev_any(src, log)
        elif r == "n17":
            src = n17_map_collect(src, log)
        elif r == "n16":
            src = n16_option_map(src, log)
        elif r == "nctxdata":
            src = nctxdata(src, log)
        elif r == "nblockpushat":
            src = nblockpushat(src, log)
        elif r == "nblockpush":
            src = nblockpush(src, log)
        elif r == "nconcat2":
            src = nconcat2(src, log)
        elif r == "nposition":
            src = nposition(src, log)
        elif r == "nextend":
            src = nextend(src, log)
        elif r == "nresize":
            src = nresize(src, log)
        elif r == "ncopyrange":
            src = ncopyrange(src, log)
        elif r.startswith("nordinal:"):
            src = nordinal(src, log, r.split(":", 1)[1])
        elif r == "nhoist":
            src = nhoist(src, log)
        elif r.startswith("nf64add:"):
            src = nf64add(src, log, r.split(":", 1)[1])
        elif r.startswith("nowrap:"):
            src = nowrap_assign(src, log, r.split(":", 1)[1])
        elif r == "nvis":
            src = nvis(src, log)
        elif r == "n4":
            src = n4_macros(src, log)
        elif r == "n4panic":
            src = n4_macros(src, log, panic_helper="vx_panic")
        elif r == "n4diverge":
            src = n4_macros(src, log, panic_helper="vx_diverge")
        elif r == "n2":
            src = n2_let_chains(src, log)
        elif r == "n1":
            src = n1_closure_patterns(src, log)
        elif r == "n7sum":
            src = n7_sum(src, log)
        elif r.startswith("n29u:"):
            src = n29u_map_unzip_method(src, log, r.split(":", 1)[1])
        elif r.startswith("n29:"):
            src = n29_map_collect_method(src, log, r.split(":", 1)[1])
        elif r == "n10":
            src = n10_entry_append(src, log)
        elif r == "nmirlits":
            src = nmirlits(src, log)
        elif r == "n30":
            src = n30_iter_for_each(src, log)
        elif r == "n28":
            src = n28_into_iter_for_each(src, log)
        elif r == "n27":
            src = n27_map_idioms(src, log)
        elif r == "n24":
            src = n24_key_searches(src, log)
        elif r == "n26":
            src = n26_for_pair_iter(src, log)
        elif r == "n22":
            src = n22_option_map_or(src, log)
        elif r == "n21":
            src = n21_each_worker(src, log)
        elif r == "n20":
            src = n20_for_enumerate_zip(src, log)
        elif r == "n7forenum":
            src = n7_for_enumerate(src, log)
        elif r == "n7res":
            src = n7_collect_result(src, log)
        elif r == "n7enum":
            src = n7_enumerate_collect(src, log)
        elif r.startswith("n6:"):
            src = n6_name_receiver(src, log, r.split(":")[1])
        elif r.startswith("n3:"):
            parts = r.split(":")
            src = n3_cast(src, log, parts[1], parts[2], parts[3] if len(parts) > 3 else None)
        else:
            raise Unsupported(f"unknown rule {r}")
    return src
